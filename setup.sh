#!/bin/bash
# Build the framework from files on disk only (offline), then warm the fact base for the current tree.
set -euo pipefail
cd "$(dirname "$0")"
export CARGO_NET_OFFLINE=true
(cd engine/mirx && cargo +nightly build --release --offline 2>&1 | tail -2)
python3 - <<'PY'
import sys
sys.path.insert(0, "engine")
from qlint import framework
d, fresh, secs = framework.ensure_facts("default")
print("fact base:", d, "extracted" if fresh else "reused", "%.0fs" % secs)
PY
