"""C15 — An unvalidated address never receives more than 3x what it sent (structural clauses)."""
from rules.common import *

TECHNIQUE = ("static analysis: atomic RMW classification on the credit/state fields, evaluated constant + const-generic "
             "instantiation, def-use of the length returned to the sender, must-reach of wake-ups on MIR")
LEVEL_TEXT = ("Static analysis of the type-checked MIR of /repo: every atomic operation on AntiAmplifier.credit must be a "
              "load, an addition, or a subtraction that cannot wrap (fetch_update with saturating/checked sub); the "
              "factor constant evaluates to 3 and the path instantiates the default; the state only moves "
              "NORMAL->GRANTED|ABORTED by compare-exchange; on_rcvd/grant/abort reach a CREDIT wake-up; what is charged "
              "by Path::send_packets is the sum of the buffers handed to the socket; the length a burst reports must be "
              "derived from what packet assembly consumed (each packet cut by Constraints::constrain), never the raw "
              "buffer capacity. Necessary structural conditions on all paths; the running inequality is not decided.")
NOT_DECIDED = ["the running inequality sent <= 3 * received over histories",
               "that Constraints::constrain bounds each packet by the current balance (value-level)",
               "promptness of resumption after credit arrives"]

AA = "qconnection::path::aa::AntiAmplifier"


def run(ctx):
    prog = ctx.prog
    ctx.rule("R1", "budget arithmetic cannot wrap: every RMW on AntiAmplifier.credit is an addition or a non-wrapping subtraction")
    ctx.rule("R2", "everything sent is charged and bounded: the length a burst returns is derived from bytes consumed by "
                   "packet assembly, and Path::send_packets charges the sum of the buffers it sends")
    ctx.rule("R3", "factor is 3 (DEFAULT_ANTI_FACTOR, default const-generic instantiation); credit/state have no other writers; "
                   "state moves only NORMAL -> GRANTED|ABORTED by CAS")
    ctx.rule("R4", "resume: on_rcvd, grant and abort reach tx_waker.wake_by; balance re-reads state after observing zero credit")

    # ---------------------------------------------------------------- R1
    ops = atomic_ops_on_field(prog, "AntiAmplifier", "credit")
    ctx.floor("R1", "atomic ops on AntiAmplifier.credit", len(ops), 3)
    seen_kinds = {}
    for (b, i, t, m) in ops:
        ctx.touch(b)
        seen_kinds.setdefault(m, []).append(b.short)
        if m in ("load",):
            continue
        if m == "fetch_add":
            ctx.ob("R1", "%s|fetch_add" % b.short, b.short == AA + "::on_rcvd", b.where(t["line"]), "credit grows only in on_rcvd")
        elif m == "fetch_update":
            # closure must use saturating_sub / checked_sub
            cl = [prog.bodies.get(x) for x in t["f"].get("fns", [])]
            names = []
            for c in cl:
                if c is not None:
                    names += [callee(tt) for _, tt in c.calls()]
                    raw = [rv[1] for (_, _, _, rv, _) in c.assigns() if rv[0] == "bin" and rv[1].startswith("Sub")]
                    names += ["raw:" + r for r in raw]
            ok = any(n.endswith("::saturating_sub") or n.endswith("::checked_sub") for n in names) and not any(n.startswith("raw:") for n in names)
            ctx.ob("R1", "%s|fetch_update(non-wrapping sub)" % b.short, ok, b.where(t["line"]),
                   "update closure uses %s" % names)
            # the charge must always land: fetch_update leaves the value untouched when the closure returns None, and the
            # caller discards the result, so every return of the closure has to be Some(..)
            always = True
            rets = []
            for c in cl:
                if c is None:
                    continue
                for (ci, cj, cp, crv, cline) in c.assigns():
                    if cp == [0]:
                        some = crv[0] == "agg" and crv[1].get("k") == "adt" and crv[1]["adt"] == "core::option::Option" and crv[1]["variant"] == "Some"
                        rets.append("Some(..)" if some else crv[0])
                        always = always and some
                for ci, ct in c.calls():
                    if ct["dest"] == [0]:
                        rets.append("call " + callee(ct).split("::")[-1])
                        always = False
            ctx.ob("R1", "%s|fetch_update always commits the charge" % b.short, always and bool(rets), b.where(t["line"]),
                   "values returned by the update closure: %s — returning None (e.g. checked_sub on overshoot) aborts the update, so a "
                   "datagram larger than the remaining credit is sent without being charged and the credit never reaches zero" % rets)
        elif m in ("fetch_sub", "swap", "store", "fetch_and", "fetch_or", "fetch_xor", "fetch_nand", "fetch_max", "fetch_min",
                   "compare_exchange", "compare_exchange_weak"):
            ctx.ob("R1", "%s|%s" % (b.short, m), False, b.where(t["line"]),
                   "`%s` on the anti-amplification credit: fetch_sub wraps on underflow (amount > credit), turning the "
                   "budget into ~usize::MAX — the 'effectively unlimited allowance' the property forbids; a "
                   "saturating/checked update is required" % m)
        else:
            ctx.ob("R1", "%s|%s" % (b.short, m), False, b.where(t["line"]), "unclassified atomic op on credit")
    ctx.stats["R1.ops"] = seen_kinds

    # ---------------------------------------------------------------- R3
    v = prog.const_value("qconnection::path::aa::DEFAULT_ANTI_FACTOR")
    ctx.ob("R3", "DEFAULT_ANTI_FACTOR==3", v == 3, "qconnection/src/path/aa.rs", "factor evaluates to %s (RFC 9000 §8.1: three times)" % v)
    b = ctx.anchor("R3", AA + "::on_rcvd")
    if b:
        ok = False
        for (i, j, p, rv, line) in b.assigns():
            if rv[0] == "bin" and rv[1] in ("MulWithOverflow", "Mul"):
                ks = [op_const(o) for o in (rv[2], rv[3])]
                ps = [op_place(o) for o in (rv[2], rv[3])]
                if any(k is not None and k.get("s") == "N" for k in ks) and any(
                        p_ is not None and any(o == ("arg", 2) for o in b.trace_local(p_[0])) for p_ in ps if p_):
                    ok = True
        ctx.ob("R3", "%s|credit += amount * N" % b.short, ok, b.where(), "received amount multiplied by the const-generic factor N: %s" % ok)
    # the path uses the default instantiation
    path_adt = prog.adts.get("qconnection::path::Path")
    if path_adt:
        tys = [f["ty"] for f in path_adt["variants"][0]["fields"] if f["n"] == "anti_amplifier"]
        ok = bool(tys) and (tys[0] in (AA, AA + "<3>"))
        ctx.ob("R3", "Path.anti_amplifier uses the default factor", ok, "qconnection/src/path.rs", "field type %s" % tys)
    else:
        ctx.ob("R3", "anchor:qconnection::path::Path", False, "", "ADT qconnection::path::Path not found")
    sops = atomic_ops_on_field(prog, "AntiAmplifier", "state")
    ctx.floor("R3", "atomic ops on AntiAmplifier.state", len(sops), 5)
    for (b, i, t, m) in sops:
        ctx.touch(b)
        if m == "load":
            continue
        if m == "compare_exchange":
            frm = op_const(t["args"][1])
            to = op_const(t["args"][2])
            ok = frm is not None and frm.get("v") == "0" and to is not None and to.get("v") in ("1", "2")
            ctx.ob("R3", "%s|CAS NORMAL->%s" % (b.short, to.get("named", "?").split("::")[-1] if to else "?"), ok, b.where(t["line"]),
                   "compare_exchange(%s, %s)" % (frm.get("v") if frm else None, to.get("v") if to else None))
        else:
            ctx.ob("R3", "%s|%s on state" % (b.short, m), False, b.where(t["line"]),
                   "validation state written with `%s`: only a CAS from NORMAL keeps grant/abort from being undone" % m)

    # ---------------------------------------------------------------- R4
    for fn, trig in ((AA + "::on_rcvd", r"Atomic::fetch_add$"), (AA + "::grant", r"Atomic::compare_exchange$"), (AA + "::abort", r"Atomic::compare_exchange$")):
        b = ctx.anchor("R4", fn)
        if not b:
            continue
        wk = call_blocks(b, r"ArcSendWaker::wake_by$")
        tr = call_blocks(b, trig)
        ok = False
        det = ""
        if wk and tr:
            if fn.endswith("on_rcvd"):
                # every path from the credit increase to return passes a wake
                r = b.reachable_from(tr[0], avoid=set(wk))
                ok = not (r & set(b.return_blocks())) or tr[0] in wk
            else:
                oe = outcome_edges(b, tr[0])
                if oe:
                    r = b.reachable_from(list(oe["ok"]), avoid=set(wk))
                    ok = not (r & set(b.return_blocks()))
        ctx.ob("R4", "%s|change is followed by wake_by(CREDIT)" % b.short, ok, b.where(),
               "trigger blocks %s, wake blocks %s: every path from the successful change to return wakes the sender: %s" % (tr, wk, ok))
    b = ctx.anchor("R4", AA + "::balance")
    if b:
        loads = [(i, t) for (bb, i, t, m) in atomic_ops_on_field(prog, "AntiAmplifier", "state", bodies=[b]) if m == "load"]
        cl = [(i, t) for (bb, i, t, m) in atomic_ops_on_field(prog, "AntiAmplifier", "credit", bodies=[b]) if m == "load"]
        ok = False
        if cl and len(loads) >= 2:
            # a state load dominated by the credit load (the documented re-check idiom)
            ok = any(b.dominates(cl[0][0], i) for (i, t) in loads)
        ctx.ob("R4", "%s|re-check state after zero credit" % b.short, ok, b.where(),
               "state is read again after the credit load (grant/abort racing with the check are observed): %s" % ok)

    # ---------------------------------------------------------------- R2
    sp = prog.find(r"^qconnection::path::Path::send_packets(::\{closure#0\})?$")
    charged = False
    for b in sp:
        ctx.touch(b)
        for i, t in b.calls():
            if callee(t).endswith("AntiAmplifier::on_sent"):
                origins = [callee(o[2]) for o in local_origins(b, t["args"][1]) if o[0] == "call"]
                charged = any(o.endswith("Iterator::sum") for o in origins)
                ctx.ob("R2", "%s|on_sent(sum of buffer lengths)" % b.short, charged, b.where(t["line"]),
                       "amount charged comes from %s (must be the total length of the datagrams handed to sendmmsg)" % origins)
    ctx.floor("R2", "Path::send_packets bodies", len(sp), 1)
    ls = ctx.anchor("R2", "qconnection::path::burst::Burst::load_spaces")
    if ls:
        n = 0
        for (i, j, rv, line) in agg_sites(ls, r"^core::result::Result$", "Ok"):
            pl = op_place(rv[2][0])
            if pl is None:
                continue
            # the tuple whose first element is the length
            for (bb, jj, rv2) in ls.defs_of(pl[0]):
                if jj == "term" or rv2[0] != "agg" or rv2[1]["k"] != "tuple":
                    continue
                n += 1
                first = rv2[2][0]
                org = local_origins(ls, first)
                derived = any(o[0] == "place" and len(o[1]) == 2 and o[1][1] == ".0" and
                              any(j4 != "term" and rv4[0] == "bin" and rv4[1].startswith("Sub") for (b4, j4, rv4) in ls.defs_of(o[1][0]))
                              for o in org)
                raw = any(o[0] == "call" and callee(o[2]).endswith("BufMut>::remaining_mut") for o in org)
                ctx.ob("R2", "%s|returned length is what assembly consumed" % ls.short, derived and not raw, ls.where(line),
                       "Ok((len, ..)) at line %s: len derives from %s — returning the raw buffer capacity (`origin`) after "
                       "padding the datagram outside any PacketWriter means up to a full datagram is sent without being "
                       "cut by Constraints::constrain; with a credit smaller than the datagram this exceeds the 3x budget"
                       % (line, "origin - remaining" if derived and not raw else "the raw capacity `origin`"))
        # the other return goes through Option::then_some(..).ok_or(..): its length is `origin - remaining`
        for i, t in ls.calls():
            if callee(t).endswith("Option::ok_or") and t["dest"] == [0]:
                n += 1
        ctx.floor("R2", "length-returning exits of load_spaces", n, 2)
    # ---------------------------------------------------------------- R5
    ctx.rule("R6", "the limit is lifted only by proof of reachability: in Path::validate the calls that mark the path validated and "
                   "grant() the anti-amplification budget run only when the received PATH_RESPONSE data was compared equal to the "
                   "outstanding PATH_CHALLENGE")
    ctx.rule("R7", "each packet is bounded by the remaining credit as an amount: the length Constraints::constrain gives the assembler is "
                   "computed from credit_limit (min with the buffer and the send quota), not merely gated by credit_limit != 0")
    ctx.rule("R5", "every committed packet is charged against the credit: Constraints::commit subtracts len from credit_limit on every path")
    cm = ctx.anchor("R5", "qconnection::path::util::Constraints::commit")
    if cm:
        ws = [(i, classify_write(cm, i, j)[0]) for (bb_, i, j, p_, rv_, ln_) in field_writes(prog, "Constraints", "credit_limit", bodies=[cm])]
        subs = [i for i, k in ws if k in ("sub",) or k.startswith("call") or k.startswith("arith")]
        allw = [i for i, k in ws]
        ok = bool(allw) and cm.must_pass(cm.return_blocks(), set(allw))
        ctx.ob("R5", "%s|credit_limit reduced on every path" % cm.short, ok, cm.where(),
               "writes to credit_limit at %s (%s); every path to return passes one: %s — a packet that is not charged (e.g. "
               "ACK-only, not in flight) lets the next coalesced packet use the full credit again" % (allw, [k for _, k in ws], ok))
    ctx.assume("Constraints::constrain cuts the buffer to min(balance, quota) (value-level; not decided)")

    # ---------------------------------------------------------------- R6
    vb = [b for b in prog.bodies.values() if re.search(r"qconnection::path::validate::<impl qconnection::path::Path>::validate::\{closure#0\}$", b.short)]
    ctx.floor("R6", "body of Path::validate", len(vb), 1)
    for b in vb[:1]:
        ctx.touch(b)
        lifts = [(i, t) for i, t in b.calls() if re.search(r"AntiAmplifier(<.*>|::<.*>)?::grant$|path::Path>::validated$", callee(t))]
        ctx.floor("R6", "grant()/validated() calls in Path::validate", len(lifts), 2)
        eqs = []
        for i, t in b.calls():
            nm = callee(t)
            if re.search(r"PartialEq(<.*>)?(>| for .*>)?::(eq|ne)$", nm) and len(t["args"]) == 2 and len(t["dest"]) == 1:
                srcs = set()
                for a in t["args"]:
                    for pl in deep_places(b, a, 6):
                        ty = b.local_ty(pl[0])
                        if "PathResponseFrame" in ty:
                            srcs.add("response")
                        if "PathChallengeFrame" in ty:
                            srcs.add("challenge")
                        for og in b.trace_local(pl[0]):
                            if og[0] == "call" and "PathResponseFrame" in callee(og[2]):
                                srcs.add("response")
                            if og[0] == "call" and "PathChallengeFrame" in callee(og[2]):
                                srcs.add("challenge")
                if srcs == {"response", "challenge"}:
                    eqs.append((t["dest"][0], nm.endswith("eq")))
        for (i, t) in lifts:
            ok = any(runs_only_when(b, l, is_eq, i) for (l, is_eq) in eqs)
            ctx.ob("R6", "%s|%s only after response == challenge" % (b.short, callee(t).split("::")[-1]), ok, b.where(t["line"]),
                   "comparisons of the PATH_RESPONSE data with the PATH_CHALLENGE data: %d; this call runs only when one of them held: %s — "
                   "otherwise any PATH_RESPONSE (a blind guess from a spoofed address, a stale one) validates the path and lifts the 3x "
                   "limit towards an address that never proved it receives our packets" % (len(eqs), ok))

    # ---------------------------------------------------------------- R7
    cb_ = ctx.anchor("R7", "qconnection::path::util::Constraints::constrain")
    if cb_:
        # the end of the returned sub-slice (`&mut buf[..len]`): its value must derive from credit_limit through min()
        flows = False
        idxs = [(i, t) for i, t in cb_.calls() if re.search(r"ops::index::IndexMut<.*> for \[T\]>::index_mut$|IndexMut::index_mut$", callee(t))]
        for (i, t) in idxs:
            if len(t["args"]) < 2:
                continue
            for pl in deep_places(cb_, t["args"][1], 8):
                if place_has_field(pl, "Constraints", "credit_limit"):
                    flows = True
        mins = [1 for i, t in cb_.calls() if re.search(r"Ord::min$|cmp::min$", callee(t)) and
                any(place_has_field(pl, "Constraints", "credit_limit") for a in t["args"] for pl in deep_places(cb_, a, 4))]
        ctx.floor("R7", "slice-bounding operations in constrain", len(idxs), 1)
        ctx.ob("R7", "%s|the granted length is min(.., credit_limit, ..)" % cb_.short, flows and bool(mins), cb_.where(),
               "credit_limit flows into the slice bound: %s; through a min(): %s — as a yes/no gate a left-over credit of a few bytes admits "
               "a full-size datagram, and the overshoot is forgiven when on_sent saturates the credit at zero: more than 3x is sent"
               % (flows, bool(mins)))
