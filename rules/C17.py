"""C17 — Closing or failing a connection ends every pending operation (structural clauses)."""
from rules.common import *

TECHNIQUE = ("static analysis: atomic write-site classification (CAS-only, guarded increase), encode-table extraction, "
             "sibling agreement of the termination fan-out, poison-write presence on MIR, Err-edge effect check (no Pending / Ok) "
             "of every application-facing operation on a poisonable cell")
LEVEL_TEXT = ("Static analysis of the type-checked MIR of /repo: every atomic operation on the life-cycle code is "
              "enumerated and must be a compare-exchange from 0 or one dominated by `new > old`; the state encoding is "
              "extracted as a table and must be strictly increasing along the life cycle; the terminating error is set "
              "only on the success edge of a state update; enter_closing and enter_draining must poison the same "
              "component set, covering every component that has a poisoning method; each poisoning method must store "
              "Err into its cell; each application-facing operation (read, write, flush, shutdown, open, accept, datagram send/recv) "
              "and both data loaders must branch on the cell and build neither Poll::Pending nor Ok on its Err edge. Necessary structural conditions on all paths; promptness and idle-timeout timing are "
              "not decided.")
NOT_DECIDED = ["promptness of completion after close (scheduling)", "idle-timeout timing ('not before'; only the zero-means-absent "
               "rule of the negotiation is decided, R6)",
               "that a sleeper parked before the failure is woken (C16-W4 decides the wake-up fan-out; here only that an operation "
               "polled after the poison write sees the error)"]

ST = "qconnection::state::ArcConnState"
LIFECYCLE = ["Attempted", "HandshakeStarted", "HandshakeComplete", "HandshakeConfirmed", "Closing", "Draining", "Closed"]


def encode_table(prog, body):
    """walk nested discriminant switches of `encode`: returns {(variant names...): const}"""
    out = {}

    def adt_of_place(place):
        ty = body.local_ty(place[0]).lstrip("&").strip()
        cur = ty.split("<")[0]
        variant = None
        for e in place[1:]:
            if e.startswith("@"):
                variant = e[1:]
            elif e.startswith("."):
                fname = e[1:].split(":")[0]
                a = prog.adts.get(cur)
                if a is None:
                    return None
                vs = [v for v in a["variants"] if variant is None or v["n"] == variant]
                if not vs:
                    return None
                f = [f for f in vs[0]["fields"] if f["n"] == fname]
                if not f:
                    return None
                cur = f[0]["ty"].split("<")[0]
                variant = None
        return cur

    def walk(b, ctx_names, depth):
        if depth > 6:
            return
        for s in body.stmts(b):
            if s[0] == "=" and s[1] == [0] and s[2][0] == "use" and op_const(s[2][1]) and "v" in op_const(s[2][1]):
                out[tuple(ctx_names)] = int(op_const(s[2][1])["v"])
        t = body.term(b)
        if t["t"] == "switch":
            pl = op_place(t["on"])
            src = None
            if pl and len(pl) == 1:
                for (bb, j, rv) in body.defs_of(pl[0]):
                    if j != "term" and rv[0] == "disc":
                        src = rv[1]
            if src is not None:
                adt = adt_of_place(src)
                names = variant_names(prog, adt) if adt else None
                for v, tgt in t["cases"]:
                    n = names.get(int(v), "?") if names else "?%s" % v
                    walk(tgt, ctx_names + [n], depth + 1)
                return
        for s2 in body.succ(b):
            if body.term(s2)["t"] != "unreachable":
                walk(s2, ctx_names, depth + 1)

    walk(0, [], 0)
    return out


def poison_writes(body):
    """blocks where `*cell = Err(..)` is stored"""
    out = []
    for (i, j, p, rv, line) in body.assigns():
        if "*" not in p[1:] and not any(isinstance(e, str) and e.startswith(".") for e in p[1:]):
            continue
        src = None
        if rv[0] == "agg":
            src = rv
        elif rv[0] == "use":
            pl = op_place(rv[1])
            if pl and len(pl) == 1:
                for (bb, jj, rv2) in body.defs_of(pl[0]):
                    if jj != "term" and rv2[0] == "agg":
                        src = rv2
        if src is not None and src[1].get("k") == "adt" and src[1]["adt"] == "core::result::Result" and src[1]["variant"] == "Err":
            out.append((i, line))
    return out


def _strip_ref(ty):
    ty = ty.strip()
    while ty.startswith("&") or ty.startswith("mut "):
        ty = ty[1:].strip() if ty.startswith("&") else ty[4:].strip()
    return ty


def _is_cell_ty(ty):
    t = _strip_ref(ty)
    return (t.startswith("core::result::Result<") and t.endswith(", qbase::error::Error>")
            and not t.startswith("core::result::Result<&") and not t.startswith("core::result::Result<()"))


def cell_inspections(b):
    """places where a `Result<Component, Error>` cell (or a guard wrapper's Result<Guard, Error>) is tested:
    [{how, switch, err (blocks of the Err edge), line, ty}]"""
    out = []
    for (i, j, p, rv, line) in b.assigns():
        if rv[0] == "disc":
            q = rv[1]
            if all(e == "*" for e in q[1:]) and _is_cell_ty(b.local_ty(q[0])):
                for sb in b.live_blocks():
                    t = b.term(sb)
                    if t["t"] == "switch" and op_place(t["on"]) == p:
                        err = set(tgt for v, tgt in t["cases"] if int(v) == 1)
                        if 1 not in set(int(v) for v, _ in t["cases"]):
                            err.add(t["else"])
                        out.append({"how": "match", "switch": sb, "err": err, "line": line, "ty": b.local_ty(q[0])})
    for i, t in b.calls():
        nm = callee(t)
        if re.search(r"result::Result(<.*>|::<.*>)?::(as_mut|as_ref|is_ok|is_err)$", nm) and t["args"]:
            p = op_place(t["args"][0])
            if p is not None and _is_cell_ty(b.local_ty(p[0])):
                oe = outcome_edges(b, i)
                out.append({"how": nm.split("::")[-1] + "()", "switch": oe and oe["switch"], "err": oe and oe["err"],
                            "line": t["line"], "ty": b.local_ty(p[0])})
        elif len(t["dest"]) == 1 and _is_cell_ty(b.local_ty(t["dest"][0])) and "Guard" in b.local_ty(t["dest"][0]):
            oe = outcome_edges(b, i)
            out.append({"how": "::".join(short_name(nm).split("::")[-2:]) + "()", "switch": oe and oe["switch"], "err": oe and oe["err"],
                        "line": t["line"], "ty": b.local_ty(t["dest"][0])})
    return out


def run(ctx):
    prog = ctx.prog
    ctx.rule("R1", "life-cycle code is monotone: every atomic op on ArcConnState.state is load or compare_exchange; a CAS is "
                   "from constant 0 or on the `new > old` edge; encode() is strictly increasing along the life cycle")
    ctx.rule("R2", "terminating error fixed once: SetOnce::set(terminated) only on the success edge of update(); in "
                   "enter_draining only when the previous state was not Closing")
    ctx.rule("R3", "termination fan-out: enter_closing and enter_draining poison the same components, covering every "
                   "Components field that has a poisoning method")
    ctx.rule("R5", "every application-facing stream / datagram operation and both data-emitting loaders inspect the poisonable cell, and "
                   "on its Err state leave with an error: no Poll::Pending and no Ok(..) is produced on the Err edge")
    ctx.rule("R6", "idle-timeout negotiation: a max_idle_timeout of zero means 'absent', so the minimum of the two endpoints' values is "
                   "taken only on paths where each of them has been tested non-zero (RFC 9000 §10.1)")
    ctx.rule("R4", "each poisoning method stores Err into its cell (or delegates to poisoning methods) on the path where the cell was Ok")

    # ---------------------------------------------------------------- R1
    ops = atomic_ops_on_field(prog, "ArcConnState", "state")
    ctx.floor("R1", "atomic ops on ArcConnState.state", len(ops), 4)
    for (b, i, t, m) in ops:
        ctx.touch(b)
        if m == "load":
            ctx.ob("R1", "%s|load" % b.short, True, b.where(t["line"]), "read only")
            continue
        if m != "compare_exchange" and m != "compare_exchange_weak":
            ctx.ob("R1", "%s|%s" % (b.short, m), False, b.where(t["line"]),
                   "life-cycle code written with `%s`: only compare_exchange can make the transition conditional on the old state" % m)
            continue
        exp = const_int(t["args"][1])
        if exp == 0:
            ctx.ob("R1", "%s|CAS from 0" % b.short, True, b.where(t["line"]), "compare_exchange(0, ..): only the very first transition")
            continue
        # guarded increase: a comparison new <= old whose true edge avoids the CAS
        ok = False
        det = "no ordering comparison of new and old codes dominates the CAS"
        newp, oldp = op_place(t["args"][2]), op_place(t["args"][1])
        for sb in b.live_blocks():
            tt = b.term(sb)
            if tt["t"] != "switch":
                continue
            pl = op_place(tt["on"])
            if not pl or len(pl) != 1:
                continue
            for (bb, jj, rv) in b.defs_of(pl[0]):
                if jj == "term" or rv[0] != "bin" or rv[1] not in ("Le", "Lt", "Ge", "Gt"):
                    continue
                tr, fa = switch_edges_on_local(b, sb)
                # which edge means new > old ?
                a_new = _same_var(b, rv[2], t["args"][2])
                b_old = _same_var(b, rv[3], t["args"][1])
                a_old = _same_var(b, rv[2], t["args"][1])
                b_new = _same_var(b, rv[3], t["args"][2])
                good = None
                if a_new and b_old:
                    good = {"Le": fa, "Lt": None, "Gt": tr, "Ge": None}[rv[1]]
                elif a_old and b_new:
                    good = {"Ge": fa, "Gt": None, "Lt": tr, "Le": None}[rv[1]]
                if good is None:
                    continue
                bad = (tr | fa) - good
                if all(edge_dominates(b, sb, g, i) for g in good) or (i in b.reachable_from(list(good)) and i not in b.reachable_from(list(bad), avoid={sb})):
                    ok = True
                    det = "CAS reachable only through the `new > old` edge of the comparison at bb%d" % sb
        ctx.ob("R1", "%s|CAS guarded by new > old" % b.short, ok, b.where(t["line"]), det)
    enc = ctx.anchor("R1", "qconnection::state::encode")
    if enc:
        tb = encode_table(prog, enc)
        codes = {}
        for names, v in tb.items():
            codes.setdefault(names[-1], []).append(v)
        seq = []
        for n in LIFECYCLE:
            vs = codes.get(n)
            if vs:
                seq.append((n, min(vs)))
        ctx.floor("R1", "encode table entries", len(tb), 9)
        ok = all(seq[k][1] < seq[k + 1][1] for k in range(len(seq) - 1)) and len(seq) >= 5 and all(v > 0 for _, v in seq)
        ctx.ob("R1", "%s|strictly increasing along the life cycle" % enc.short, ok, enc.where(),
               "encode: %s (must be strictly increasing and > 0, the initial code)" % seq)
        dup = [v for v in set(tb.values()) if list(tb.values()).count(v) > 1]
        ctx.ob("R1", "%s|injective" % enc.short, not dup, enc.where(), "codes used twice: %s" % dup)

    # ---------------------------------------------------------------- R2
    sets = []
    for (b, i, t) in prog.call_sites(r"tokio::sync::set_once::SetOnce::set$"):
        o = local_origins(b, t["args"][0])
        if any(x[0] == "place" and place_has_field(x[1], "ArcConnState", "terminated") for x in o):
            sets.append((b, i, t))
    ctx.floor("R2", "SetOnce::set(terminated) sites", len(sets), 2)
    for (b, i, t) in sets:
        ctx.touch(b)
        ub = call_blocks(b, r"ArcConnState::update$")
        ok = any(guarded_by_ok(b, u, i) for u in ub)
        ctx.ob("R2", "%s|set only after a successful update" % b.short, ok, b.where(t["line"]),
               "terminated.set(..) at bb%d guarded by the Some edge of update() (calls at %s): %s" % (i, ub, ok))
        if b.short.endswith("::enter_draining"):
            nb = call_blocks(b, r"PartialEq(<.*>)?>?::ne$|cmp::PartialEq::ne$")
            g = False
            for n in nb:
                oe = outcome_edges(b, n)
                if oe and b.dominates(n, i) and i not in b.reachable_from(list(oe["err"]), avoid={n}):
                    g = True
            ctx.ob("R2", "%s|not re-set when coming from Closing" % b.short, g, b.where(t["line"]),
                   "set guarded by `old_state != Closing`: %s (SetOnce::set would fail and the expect would panic)" % g)
    # who else may complete `terminated`
    others = [b.short for (b, i, t) in sets if not (b.short.endswith("::enter_closing") or b.short.endswith("::enter_draining"))]
    ctx.ob("R2", "terminated set only by enter_closing/enter_draining", not others, "qconnection/src/state.rs",
           "other setters: %s" % others)

    # ---------------------------------------------------------------- R3
    comp = prog.adts.get("qconnection::Components")
    ec = ctx.anchor("R3", "qconnection::Components::enter_closing")
    ed = ctx.anchor("R3", "qconnection::Components::enter_draining")
    if comp and ec and ed:
        def fan(b):
            return sorted(set(callee(t) for i, t in b.calls() if re.search(r"::(on_conn_error|on_error)$", callee(t))))
        fc, fd = fan(ec), fan(ed)
        ctx.ob("R3", "sibling agreement enter_closing/enter_draining", fc == fd and len(fc) >= 4, ec.where(),
               "enter_closing poisons %s; enter_draining poisons %s" % (fc, fd))
        # coverage: fields whose type has a poisoning method
        EXC = {"flow_ctrl": "no task sleeps on the connection-level flow controller; senders blocked on credit are woken "
                            "through their own stream's on_conn_error (reviewed exception)"}
        for f in comp["variants"][0]["fields"]:
            base = f["ty"].split("<")[0]
            ms = [b for b in prog.find(r"^%s::(on_conn_error|on_error)$" % re.escape(base))]
            if not ms:
                continue
            called = any(m.short in fc for m in ms) and any(m.short in fd for m in ms)
            if f["n"] in EXC and not called:
                ctx.note("R3 exception: Components.%s (%s) is not poisoned on termination — %s" % (f["n"], base, EXC[f["n"]]))
                continue
            ctx.ob("R3", "Components.%s poisoned on termination" % f["n"], called, ec.where(),
                   "field %s: %s has %s; called from both terminators: %s" % (f["n"], base, [m.short for m in ms], called))
    # ---------------------------------------------------------------- R4
    leaf = ["qrecovery::send::outgoing::Outgoing::on_conn_error", "qrecovery::recv::incoming::Incoming::on_conn_error",
            "qrecovery::streams::io::ArcOutputGuard::on_conn_error", "qrecovery::streams::io::ArcInputGuard::on_conn_error",
            "qrecovery::streams::listener::ListenerGuard::on_conn_error", "qdatagram::reader::DatagramIncoming::on_conn_error",
            "qdatagram::writer::DatagramOutgoing::on_conn_error", "qbase::param::ArcParameters::on_conn_error",
            "qconnection::tls::ArcTlsHandshake::on_conn_error", "qbase::flow::ArcSendControler::on_error"]
    for name in leaf:
        b = ctx.anchor("R4", name)
        if not b:
            continue
        pw = poison_writes(b)
        ctx.ob("R4", "%s|stores Err into its cell" % b.short, bool(pw), b.where(),
               "poison writes (`*cell = Err(error)`) at %s — without it later operations on the component keep working "
               "after the connection has failed" % (["bb%d:L%s" % x for x in pw] or "none"))
    # every live state is poisoned (not only some arms of the state match)
    for name, enum, live in (("qrecovery::send::outgoing::Outgoing::on_conn_error", "qrecovery::send::sender::Sender", ["Ready", "Sending", "DataSent"]),
                             ("qrecovery::recv::incoming::Incoming::on_conn_error", "qrecovery::recv::recver::Recver", ["Recv", "SizeKnown"])):
        b = ctx.anchor("R4", name)
        if not b:
            continue
        tb = arm_table(prog, b, enum) or {}
        pw = set(i for i, _ in poison_writes(b))
        for st in live:
            arm = tb.get(st)
            ok = arm is not None and bool(pw & b.reachable_from(arm["target"]))
            ctx.ob("R4", "%s|state %s is poisoned" % (b.short, st), ok, b.where(),
                   "the %s arm reaches the `*cell = Err(error)` store: %s (a stream left in this state keeps returning Pending "
                   "after the connection failed: pending flush/shutdown/read never complete)" % (st, ok))
    deleg = {"qrecovery::streams::raw::DataStreams::on_conn_error": [r"ArcOutputGuard::on_conn_error$", r"ArcInputGuard::on_conn_error$", r"ListenerGuard::on_conn_error$"],
             "qdatagram::DatagramFlow::on_conn_error": [r"DatagramIncoming::on_conn_error$", r"DatagramOutgoing::on_conn_error$"],
             "qrecovery::streams::io::ArcOutputGuard::on_conn_error": [r"Outgoing::on_conn_error$"],
             "qrecovery::streams::io::ArcInputGuard::on_conn_error": [r"Incoming::on_conn_error$"]}
    for name, subs in deleg.items():
        b = ctx.anchor("R4", name)
        if not b:
            continue
        bodies = prog.with_closures(b)
        for rx in subs:
            ok = any(calls(bb, rx) for bb in bodies)
            ctx.ob("R4", "%s|delegates to %s" % (b.short, rx.rstrip("$")), ok, b.where(), "call present: %s" % ok)
    # ---------------------------------------------------------------- R5
    OPS = {
        "qrecovery::send::writer::Writer::poll_ready": ["Sender"], "qrecovery::send::writer::Writer::write": ["Sender"],
        "qrecovery::send::writer::Writer::poll_write": ["Sender"], "qrecovery::send::writer::Writer::poll_flush": ["Sender"],
        "qrecovery::send::writer::Writer::poll_shutdown": ["Sender"],
        "qrecovery::recv::reader::Reader::poll_read": ["Recver"], "qrecovery::recv::reader::Reader::poll_next": ["Recver"],
        "qrecovery::streams::listener::ArcListener::poll_accept_bi_stream": ["Listener"],
        "qrecovery::streams::listener::ArcListener::poll_accept_uni_stream": ["Listener"],
        "qrecovery::streams::raw::DataStreams::poll_open_bi_stream": ["ArcOutputGuard", "ArcInputGuard"],
        "qrecovery::streams::raw::DataStreams::poll_open_uni_stream": ["ArcOutputGuard"],
        "qdatagram::reader::DatagramReader::poll_recv": ["RawDatagarmReader"],
        "qdatagram::writer::DatagramWriter::send_bytes": ["RawDatagramWriter"],
        "qdatagram::reader::DatagramIncoming::new_reader": ["RawDatagarmReader"],
        "qdatagram::writer::DatagramOutgoing::new_writer": ["RawDatagramWriter"],
        # "no further application data is emitted": the two loaders packet assembly calls
        "qrecovery::send::outgoing::Outgoing::try_load_data_into": ["Sender"],
        "qdatagram::writer::DatagramOutgoing::try_load_data_into": ["RawDatagramWriter"],
    }
    for name, cells in OPS.items():
        b = ctx.anchor("R5", name)
        if not b:
            continue
        ins = cell_inspections(b)
        for cell in cells:
            mine = [x for x in ins if re.search(r"\b%s\b" % cell, x["ty"])]
            if not mine:
                ctx.ob("R5", "%s|observes the %s cell" % (b.short, cell), False, b.where(),
                       "no inspection of a Result<%s.., Error> cell found: the operation cannot see that the connection failed" % cell)
                continue
            for x in mine[:1] if len(mine) == 1 else mine:
                if not x["err"]:
                    ctx.ob("R5", "%s|%s Err state ends the operation with the error" % (b.short, cell), False, b.where(x["line"]),
                           "the cell is inspected (%s) but its outcome never branches" % x["how"])
                    continue
                reach = b.reachable_from(list(x["err"]), avoid={x["switch"]})
                pend = [i for (i, j, rv, l) in agg_sites(b, r"task::poll::Poll$", "Pending") if i in reach]
                oks = [i for (i, j, rv, l) in agg_sites(b, r"^core::result::Result$", "Ok") if i in reach]
                errs = [i for (i, j, rv, l) in agg_sites(b, r"^core::result::Result$", "Err") if i in reach]
                fr = [i for i, t in b.calls() if i in reach and re.search(r"from_residual$", callee(t))]
                ok = not pend and not oks and bool(errs or fr)
                ctx.ob("R5", "%s|%s Err state ends the operation with the error" % (b.short, cell), ok, b.where(x["line"]),
                       "inspection by %s; on the Err edge: Poll::Pending built at %s, Ok(..) built at %s, Err/`?` at %s — an operation that "
                       "parks or succeeds on a poisoned cell blocks forever (nobody will wake it again) or keeps accepting/emitting "
                       "data after the connection failed" % (x["how"], pend, oks, errs + fr))
    # ---------------------------------------------------------------- R6
    ng = ctx.anchor("R6", "qbase::time::IdleConfig::negotiate_max_idle_timeout")
    if ng:
        def root(pl):
            """canonical origin of a place: through tuple packing and copies down to a field of self or a parameter"""
            for _ in range(6):
                if len(pl) >= 2 and isinstance(pl[1], str) and re.match(r"^\.\d+$", pl[1].split(":")[0]):
                    k = int(pl[1].split(":")[0][1:])
                    aggs = [rv for (bb, jj, rv) in ng.defs_of(pl[0]) if jj != "term" and rv[0] == "agg" and rv[1]["k"] == "tuple"]
                    if len(aggs) == 1 and k < len(aggs[0][2]):
                        q = op_place(aggs[0][2][k])
                        if q is not None:
                            pl = q
                            continue
                if len(pl) == 1:
                    ogs = ng.trace_local(pl[0])
                    if len(ogs) == 1 and ogs[0][0] == "place":
                        pl = ogs[0][1]
                        continue
                    if len(ogs) == 1 and ogs[0][0] == "arg":
                        return "arg:%d" % ogs[0][1]
                break
            f = [x for x in place_fields(pl) if not x.isdigit()]
            return ("field:" + f[0]) if f else ("local:%d" % pl[0])
        mins = [(i, t) for i, t in ng.calls() if re.search(r"cmp::Ord::min$|Ord>::min$|cmp::min$", callee(t)) and len(t["args"]) == 2]
        ctx.floor("R6", "min() calls in negotiate_max_idle_timeout", len(mins), 1)
        # zero tests: (root, blocks entered when the value IS zero)
        ztests = []
        for (i, j, p, rv, line) in ng.assigns():
            if rv[0] == "bin" and rv[1] == "Eq" and len(p) == 1:
                for a, b_ in ((rv[2], rv[3]), (rv[3], rv[2])):
                    srcs = [og[1] for og in local_origins(ng, a) if og[0] == "place"] + ([op_place(a)] if op_place(a) and len(op_place(a)) > 1 else [])
                    for q in srcs:
                        if "nanos" in place_fields(q) or "secs" in place_fields(q):
                            for (sbk, neg) in bool_switches(ng, p[0]):
                                tr, fa = switch_edges_on_local(ng, sbk)
                                ztests.append((root(q[:2] if len(q) > 2 else q), set(fa if neg else tr)))
        for i, t in ng.calls():
            nm = callee(t)
            if re.search(r"Duration::is_zero$", nm) and t["args"] and len(t["dest"]) == 1:
                q = op_place(t["args"][0])
                for (sbk, neg) in bool_switches(ng, t["dest"][0]):
                    tr, fa = switch_edges_on_local(ng, sbk)
                    ztests.append((root(q), set(fa if neg else tr)))
        # `x == Duration::ZERO` / `x != Duration::ZERO`
        for i, t in ng.calls():
            m_ = re.search(r"time::Duration as core::cmp::PartialEq>::(eq|ne)$|cmp::PartialEq::(eq|ne)$", callee(t))
            if m_ and len(t["args"]) == 2 and len(t["dest"]) == 1:
                which = m_.group(1) or m_.group(2)
                zero_side = None
                for k_, a in enumerate(t["args"]):
                    for og in local_origins(ng, a):
                        if og[0] == "const" and og[1] and ("ZERO" in str(og[1].get("named", "")) or "promoted" in og[1]):
                            zero_side = k_
                if zero_side is None:
                    continue
                other = t["args"][1 - zero_side]
                subj = None
                for pl in deep_places(ng, other, 4):
                    r_ = root(pl)
                    if r_.startswith("field:") or r_.startswith("arg:"):
                        subj = r_
                        break
                if subj is None:
                    continue
                for (sbk, neg) in bool_switches(ng, t["dest"][0]):
                    tr, fa = switch_edges_on_local(ng, sbk)
                    if neg:
                        tr, fa = fa, tr
                    ztests.append((subj, set(tr if which == "eq" else fa)))
        for (mi, mt) in mins:
            for k, a in enumerate(mt["args"]):
                q = op_place(a)
                r_ = root(q) if q is not None else "const"
                ok = any(zr == r_ and zedge and mi not in ng.reachable_from(list(zedge)) for (zr, zedge) in ztests)
                ctx.ob("R6", "%s|min() operand %d (%s) was tested non-zero" % (ng.short, k, r_), ok, ng.where(mt["line"]),
                       "zero tests found on: %s; one whose zero outcome cannot reach this min(): %s — min(0, x) = 0 turns 'this endpoint "
                       "advertises no idle timeout' into 'idle timeout disabled', so an idle connection is never closed although the peer "
                       "asked for a limit" % (sorted(set(z for z, _ in ztests)), ok))
    # ---------------------------------------------------------------- R7 by reference
    ctx.rule("R7", "a failure wakes the task that is really waiting: single-waker slots are registered by replacing, resets wake "
                   "unconditionally (C16-W8/W9 obligations re-evaluated)")
    import importlib
    from qlint import framework as fw
    sub = fw.Ctx("C16", ctx.tier, ctx.seed, prog)
    importlib.import_module("rules.C16").run(sub)
    n7 = 0
    for o in sub.obs:
        if o.rule in ("W8", "W9") and "floor:" not in o.key:
            n7 += 1
            ctx.ob("R7", "C16:%s" % o.key, o.ok, o.where, o.detail)
    ctx.functions |= sub.functions
    ctx.floor("R7", "obligations inherited from C16-W8/W9", n7, 12)
    ctx.assume("tokio::sync::SetOnce::set fails (does not overwrite) when already set")


def _same_var(body, a, b):
    """do two operands denote the same source variable (same local, or copies of the same local)"""
    pa, pb = op_place(a), op_place(b)
    if pa is None or pb is None:
        return False

    def roots(p):
        if len(p) != 1:
            return {tuple(p)}
        r = {p[0]}
        for (bb, j, rv) in body.defs_of(p[0]):
            if j != "term" and rv[0] == "use":
                q = op_place(rv[1])
                if q and len(q) == 1:
                    r.add(q[0])
        return r
    return bool(roots(pa) & roots(pb))
