"""C16 — No wake-up is ever lost (protocol-shape clauses of every hand-written waiter/notifier pair)."""
from rules.common import *

TECHNIQUE = ("static analysis: waker-protocol lint on MIR — pending=>registered must-pass-through, per-slot store/wake site "
             "inference with a reviewed notifier table checked by call-graph reachability, full-drain of multi-waker slots, "
             "state hand-over def-use, publish-before-notify ordering")
LEVEL_TEXT = ("Static analysis of the type-checked MIR of /repo: (W1) in every function taking a task Context, each path "
              "to a Poll::Pending result passes a use of that context (waker stored or poll forwarded); (W2) every field "
              "that holds a Waker is discovered from the type definitions, its store sites and wake sites are inferred by "
              "def-use, a slot that is stored but never woken is reported, and every notifier in the reviewed table must "
              "still reach a wake of its slot through the call graph; (W7) notifiers of multi-waker slots drain the whole "
              "collection; (W5) state hand-over moves each waker field into the same-named field of the successor state; "
              "(W6) a notifier publishes the condition before it wakes. These are necessary shape conditions of each "
              "waiter/notifier pair on all paths; absence of lost wake-ups under all interleavings is not decided.")
NOT_DECIDED = ["absence of lost wake-ups under all interleavings (in particular SendWaker's bit-mask protocol and the "
               "lock-free AntiAmplifier re-check)", "that the condition tested by a waiter is the one its notifier makes true (W2 "
               "associates by slot, not by condition)", "executor behaviour (a woken task is polled again)"]

SKIP_CRATES = ("qevent", "h3_shim", "qresolve", "qmacro", "qudp")

# Reviewed notifier table: slot -> functions that make the waited-for condition true (or close/fail the object) and
# therefore must reach a wake of that slot.  Confirmed by reading; one reason per line.
NOTIFIERS = {
    ("qbase::Receiving", "0"): [("qbase::Receiving::recv_frame", "frame arrived"), ("qbase::Receiving::reset", "closed")],
    ("qbase::net::tx::SendWaker", "waker"): [("qbase::net::tx::SendWaker::wake_by", "send condition changed")],
    ("qbase::packet::keys::KeysState", "0"): [("qbase::packet::keys::KeysState::set", "keys available"), ("qbase::packet::keys::KeysState::invalid", "keys discarded")],
    ("qbase::packet::keys::OneRttKeysState", "0"): [("qbase::packet::keys::ArcOneRttKeys::set_keys", "keys available"), ("qbase::packet::keys::ArcOneRttKeys::invalid", "keys discarded")],
    ("qbase::param::Parameters", "wakers"): [("qbase::param::Parameters::recv_remote_params", "peer parameters authenticated"),
                                            ("qbase::param::Parameters::initial_scid_from_peer_need_equal", "peer parameters authenticated"),
                                            ("<qbase::param::Parameters as core::ops::drop::Drop>::drop", "object gone")],
    ("qbase::sid::local_sid::LocalStreamIds", "wakers"): [("qbase::sid::local_sid::LocalStreamIds::increase_limit", "stream id granted")],
    ("qbase::util::async_deque::AsyncDeque", "waker"): [("qbase::util::async_deque::AsyncDeque::push_back", "item queued"),
                                                       ("qbase::util::async_deque::AsyncDeque::push_front", "item queued"),
                                                       ("<qbase::util::async_deque::AsyncDeque as core::iter::traits::collect::Extend<T>>::extend", "items queued"),
                                                       ("qbase::util::async_deque::AsyncDeque::close", "closed")],
    ("qbase::util::wakers::WakerVec", "wakers"): [("qbase::util::wakers::WakerVec::wake_all", "helper"), ("<qbase::util::wakers::WakerVec as core::ops::drop::Drop>::drop", "object gone")],
    ("qconnection::tls::ClientTlsSession", "read_waker"): [("qconnection::tls::TlsSession::write_hs", "handshake data produced"), ("<qconnection::tls::ClientTlsSession as core::ops::drop::Drop>::drop", "object gone")],
    ("qconnection::tls::ServerTlsSession", "read_waker"): [("qconnection::tls::TlsSession::write_hs", "handshake data produced"), ("<qconnection::tls::ServerTlsSession as core::ops::drop::Drop>::drop", "object gone")],
    ("qconnection::tls::InfoState", "0"): [("<qconnection::tls::InfoState as core::ops::drop::Drop>::drop", "state replaced by Ready (drop of Demand wakes)")],
    ("qdatagram::reader::RawDatagarmReader", "read_waker"): [("qdatagram::reader::DatagramIncoming::recv_datagram", "datagram arrived"), ("qdatagram::reader::DatagramIncoming::on_conn_error", "connection failed")],
    ("qrecovery::crypto::recv::Recver", "read_waker"): [("qrecovery::crypto::recv::Recver::recv", "crypto data arrived")],
    ("qrecovery::crypto::send::Sender", "flush_waker"): [("qrecovery::crypto::send::Sender::on_data_acked", "all crypto data acknowledged")],
    ("qrecovery::recv::recver::Recv", "read_waker"): [("qrecovery::recv::recver::Recv::recv", "stream data arrived"), ("qrecovery::recv::recver::Recv::determin_size", "final size known"),
                                                     ("qrecovery::recv::recver::Recv::wake_reader", "reset / connection failed (helper)"),
                                                     ("qrecovery::recv::incoming::Incoming::on_conn_error", "connection failed")],
    ("qrecovery::recv::recver::SizeKnown", "read_waker"): [("qrecovery::recv::recver::SizeKnown::recv", "stream data arrived"), ("qrecovery::recv::recver::SizeKnown::wake_reader", "reset / connection failed (helper)"),
                                                          ("qrecovery::recv::incoming::Incoming::on_conn_error", "connection failed")],
    ("qrecovery::send::sender::ReadySender", "writable_waker"): [("qrecovery::send::sender::ReadySender::update_window", "window grew"), ("qrecovery::send::sender::ReadySender::wake_all", "closed (helper)")],
    ("qrecovery::send::sender::ReadySender", "flush_waker"): [("qrecovery::send::sender::ReadySender::wake_all", "closed (helper)")],
    ("qrecovery::send::sender::ReadySender", "shutdown_waker"): [("qrecovery::send::sender::ReadySender::wake_all", "closed (helper)")],
    ("qrecovery::send::sender::SendingSender", "writable_waker"): [("qrecovery::send::sender::SendingSender::update_window", "window grew"), ("qrecovery::send::sender::SendingSender::wake_all", "closed (helper)")],
    ("qrecovery::send::sender::SendingSender", "flush_waker"): [("qrecovery::send::sender::SendingSender::on_data_acked", "data acknowledged"), ("qrecovery::send::sender::SendingSender::wake_all", "closed (helper)")],
    ("qrecovery::send::sender::SendingSender", "shutdown_waker"): [("qrecovery::send::sender::SendingSender::wake_all", "closed (helper)")],
    ("qrecovery::send::sender::DataSentSender", "flush_waker"): [("qrecovery::send::sender::DataSentSender::on_data_acked", "data acknowledged"), ("qrecovery::send::sender::DataSentSender::wake_all", "closed (helper)")],
    ("qrecovery::send::sender::DataSentSender", "shutdown_waker"): [("qrecovery::send::sender::DataSentSender::on_data_acked", "all data acknowledged"), ("qrecovery::send::sender::DataSentSender::wake_all", "closed (helper)")],
    ("qrecovery::streams::listener::Listener", "bi_waker"): [("qrecovery::streams::listener::Listener::push_bi_stream", "peer opened a stream"), ("qrecovery::streams::listener::ListenerGuard::on_conn_error", "connection failed")],
    ("qrecovery::streams::listener::Listener", "uni_waker"): [("qrecovery::streams::listener::Listener::push_recv_stream", "peer opened a stream"), ("qrecovery::streams::listener::ListenerGuard::on_conn_error", "connection failed")],
    ("qtraversal::punch::scheduler::Scheduler", "waiters"): [("qtraversal::punch::scheduler::Scheduler::release_port", "port released")],
}
# close/failure fan-out: function -> helper that wakes every slot of the state (W4)
CLOSE_FANOUT = [
    ("qrecovery::send::outgoing::Outgoing::on_conn_error", [r"ReadySender::wake_all$", r"SendingSender::wake_all$", r"DataSentSender::wake_all$"]),
    ("qrecovery::recv::incoming::Incoming::on_conn_error", [r"Recv::wake_reader$", r"SizeKnown::wake_reader$"]),
]
# slots that are containers of wakers: notifiers must drain them completely
MULTI = {("qbase::param::Parameters", "wakers"), ("qbase::sid::local_sid::LocalStreamIds", "wakers"),
         ("qbase::util::wakers::WakerVec", "wakers"), ("qtraversal::punch::scheduler::Scheduler", "waiters"),
         ("qconnection::tls::InfoState", "0")}
# composite slots (a field whose type is itself a waker container type): handled through the container's own rules
COMPOSITE_TYPES = ("qbase::util::wakers::WakerVec", "qbase::util::wakers::Wakers")


def discover_slots(prog):
    slots = {}
    for n, a in sorted(prog.adts.items()):
        if n.split("::")[0] in SKIP_CRATES:
            continue
        for v in a["variants"]:
            for f in v["fields"]:
                ty = f["ty"]
                if "core::task::wake::Waker" in ty or any(c in ty for c in COMPOSITE_TYPES):
                    if "ArcSendWaker" in ty:
                        continue
                    slots[(n, f["n"])] = {"variant": v["n"] if a["kind"] == "enum" else None, "ty": ty,
                                          "stores": set(), "wakes": set(), "composite": "core::task::wake::Waker" not in ty}
    return slots


def slot_hits(slots, body, places):
    hits = set()
    for pl in places:
        var = None
        for e in pl[1:]:
            if not isinstance(e, str):
                continue
            if e.startswith("@"):
                var = e[1:]
            elif e.startswith("."):
                nm = e[1:].split(":", 1)
                if len(nm) < 2:
                    continue
                key = (nm[1], nm[0])
                s = slots.get(key)
                if s is not None and (s["variant"] is None or s["variant"] == var):
                    hits.add(key)
    return hits


def waker_helpers(prog):
    """functions that wake a waker reachable from one of their parameters: {body id: set(param index)} (fixpoint)"""
    helpers = {}
    def params_of(b, op):
        out = set()
        for pl in deep_places(b, op, 6):
            if 1 <= pl[0] <= b.argc:
                out.add(pl[0])
            for o in b.trace_local(pl[0]):
                if o[0] == "arg":
                    out.add(o[1])
        return out
    bodies = [b for b in prog.bodies.values() if b.crate not in SKIP_CRATES and b.kind in ("fn", "assoc_fn", "closure")]
    for b in bodies:
        for i, t in b.calls():
            if re.search(r"task::wake::Waker::(wake|wake_by_ref)$", callee(t)) and t["args"]:
                ps = params_of(b, t["args"][0])
                if ps:
                    helpers.setdefault(b.id, set()).update(ps)
    changed = True
    rounds = 0
    while changed and rounds < 4:
        changed = False
        rounds += 1
        for b in bodies:
            for i, t in b.calls():
                cid = t["f"].get("def")
                if cid in helpers:
                    for k in helpers[cid]:
                        if k - 1 < len(t["args"]):
                            ps = params_of(b, t["args"][k - 1])
                            if ps and not ps <= helpers.get(b.id, set()):
                                helpers.setdefault(b.id, set()).update(ps)
                                changed = True
    return helpers


def infer_sites(prog, slots):
    helpers = waker_helpers(prog)
    for b in prog.bodies.values():
        if b.crate in SKIP_CRATES:
            continue
        for i, t in b.calls():
            cid = t["f"].get("def")
            if cid in helpers:
                for k in helpers[cid]:
                    if k - 1 < len(t["args"]):
                        for s in slot_hits(slots, b, deep_places(b, t["args"][k - 1])):
                            slots[s]["wakes"].add(b.short)
    # a closure that wakes its element parameter, handed to an iterator adaptor (for_each / map / filter_map ...) whose
    # receiver is derived from a slot: `slot.drain(..).for_each(|w| w.wake())`
    for b in prog.bodies.values():
        if b.crate in SKIP_CRATES:
            continue
        for i, t in b.calls():
            ks = [k for k in t["f"].get("fns", []) if k in helpers]
            if not ks or not re.search(r"Iterator::(for_each|map|filter_map|try_for_each|fold|for_each_concurrent)$|Option(<.*>|::<.*>)?::(map|inspect|and_then|into_iter)$", callee(t)):
                continue
            for a in t["args"]:
                for s_ in slot_hits(slots, b, deep_places(b, a, 6)):
                    slots[s_]["wakes"].add(b.short)
    for b in prog.bodies.values():
        if b.crate in SKIP_CRATES:
            continue
        for i, t in b.calls():
            n = callee(t)
            if not t["args"]:
                continue
            if re.search(r"task::wake::Waker::(wake|wake_by_ref)$", n) or re.search(r"wakers::(WakerVec|Wakers)::wake_all$", n):
                for s in slot_hits(slots, b, deep_places(b, t["args"][0])):
                    slots[s]["wakes"].add(b.short)
            elif re.search(r"::(push|push_back|push_front|register|insert|replace|get_or_insert_with|get_or_insert)$", n):
                for s in slot_hits(slots, b, deep_places(b, t["args"][0], 3)):
                    slots[s]["stores"].add(b.short)
        for (i, j, pl, rv, line) in b.assigns():
            dests = [pl]
            if len(pl) == 2 and pl[1] == "*":
                dests += [o[1] for o in b.trace_local(pl[0]) if o[0] == "place"]
            hs = slot_hits(slots, b, dests)
            if not hs:
                continue
            isnone = rv[0] == "agg" and rv[1].get("variant") == "None"
            src = op_place(rv[1]) if rv[0] == "use" else None
            if src is not None and len(src) == 1:
                for (bb, jj, rv2) in b.defs_of(src[0]):
                    if jj != "term" and rv2[0] == "agg" and rv2[1].get("variant") == "None":
                        isnone = True
            if not isnone:
                for s in hs:
                    slots[s]["stores"].add(b.short)


def run(ctx):
    prog = ctx.prog
    ctx.rule("W1", "pending => registered: in every function with a task Context parameter, each path to a Poll::Pending "
                   "construction passes a call that uses the context (stores its waker or forwards the poll)")
    ctx.rule("W2", "every waker slot that is stored has a wake site; each reviewed notifier (condition made true, close, "
                   "error, drop) still reaches a wake of its slot through the call graph")
    ctx.rule("W4", "failing an object wakes every sleeper of every state (close fan-out table)")
    ctx.rule("W5", "state hand-over keeps wakers: a successor state built from its predecessor takes each same-named waker field from it")
    ctx.rule("W6", "publish before notify: a notifier stores the item before it wakes the consumer (no wake followed by the publishing lock)")
    ctx.rule("W7", "multi-waker slots are drained completely by their notifiers (RangeFull drain / take of the whole collection)")

    # ---------------------------------------------------------------- W1
    n_poll = 0
    for b in sorted(prog.bodies.values(), key=lambda x: x.id):
        if b.kind not in ("fn", "assoc_fn", "closure"):
            continue
        if b.crate in SKIP_CRATES:
            continue
        cx = [i for i in range(1, b.argc + 1) if "core::task::wake::Context" in b.local_ty(i)]
        if not cx:
            continue
        pend = [i for (i, j, rv, line) in agg_sites(b, r"^core::task::poll::Poll$", "Pending")]
        if not pend:
            continue
        if any(m.startswith("tokio::") or m.startswith("futures") or m.startswith("$crate::") for m in b.macros):
            continue  # join!/select!/try_join! expansions: external macro protocol
        n_poll += 1
        ctx.touch(b)
        reg = set()
        for i, t in b.calls():
            for a in t["args"]:
                if op_place(a) is None:
                    continue
                if any(q[0] in cx or any(o[0] == "arg" and o[1] in cx for o in b.trace_local(q[0])) for q in deep_places(b, a, 4)):
                    reg.add(i)
        ok = b.must_pass(pend, reg)
        ctx.ob("W1", "%s|Pending only after using the context" % b.short, ok, b.where(),
               "Poll::Pending built at %s; blocks using the Context: %s — a Pending returned on a path that never touched "
               "the context leaves no waker behind: the task sleeps forever even after the condition becomes true"
               % (["bb%d" % x for x in pend], sorted(reg)[:8]))
    ctx.floor("W1", "hand-written poll functions returning Pending", n_poll, 44)

    # ---------------------------------------------------------------- W2 / W7
    slots = discover_slots(prog)
    infer_sites(prog, slots)
    ctx.floor("W2", "waker slots discovered from type definitions", len(slots), 30)
    ctx.stats["W2.slots"] = {"%s.%s" % k: {"stores": sorted(v["stores"]), "wakes": sorted(v["wakes"])} for k, v in slots.items()}
    for key, s in sorted(slots.items()):
        if s["composite"]:
            continue
        real_stores = [x for x in s["stores"] if not x.endswith("::new") and not x.endswith("::default") and "clone::Clone" not in x and "::new_pending" not in x]
        if real_stores:
            ctx.ob("W2", "%s.%s|stored slot has a wake site" % key, bool(s["wakes"]), "",
                   "stored by %s; woken by %s — a waker that is registered and never woken means the waiter can only "
                   "finish if the condition already held at its first poll" % (sorted(real_stores), sorted(s["wakes"]) or "nobody"))
        if key not in NOTIFIERS and real_stores:
            ctx.note("W2: slot %s.%s is not in the reviewed notifier table (new slot?): only the has-a-wake-site rule applies" % key)
    n_not = 0
    for key, lst in sorted(NOTIFIERS.items()):
        s = slots.get(key)
        if s is None:
            ctx.ob("W2", "%s.%s|slot exists" % key, False, "", "reviewed waker slot not found in the type definitions (renamed?): failing closed")
            continue
        wake_fns = s["wakes"]
        for fn, why in lst:
            bs = prog.by_short.get(fn, [])
            if len(bs) != 1:
                ctx.ob("W2", "%s.%s|notifier %s" % (key[0], key[1], fn), False, "", "notifier `%s` not found (%d bodies): failing closed" % (fn, len(bs)))
                continue
            n_not += 1
            b = bs[0]
            ctx.touch(b)
            seen = prog.reachable_bodies([b])
            reach = sorted(prog.bodies[x].short for x in seen if x in prog.bodies and prog.bodies[x].short in wake_fns)
            # Drop glue: a drop terminator of a value whose type owns the slot also counts when the type's Drop wakes
            ctx.ob("W2", "%s.%s|notifier %s wakes" % (key[0], key[1], fn), bool(reach), b.where(),
                   "%s (%s) reaches a wake of the slot via %s" % (fn, why, reach or "NOTHING — the sleeper is not woken when this happens"))
    ctx.floor("W2", "reviewed notifier instances", n_not, 50)
    # W7
    for key in sorted(MULTI):
        s = slots.get(key)
        if s is None:
            ctx.ob("W7", "%s.%s|slot exists" % key, False, "", "multi-waker slot not found")
            continue
        for fn in sorted(s["wakes"]):
            for b in prog.by_short.get(fn, []):
                ctx.touch(b)
                full = False
                partial = []
                for i, t in b.calls():
                    n = callee(t)
                    if re.search(r"::drain$", n):
                        if any("RangeFull" in g for g in t["f"].get("gargs", [])):
                            full = True
                        else:
                            partial.append("drain(%s)" % [g for g in t["f"].get("gargs", [])][-1:])
                    elif re.search(r"mem::take$|mem::replace$|IntoIterator>::into_iter$|::iter$|::iter_mut$", n):
                        if slot_hits(slots, b, deep_places(b, t["args"][0], 4)) & {key} or key[1] == "0":
                            full = True
                    elif re.search(r"::(pop_front|pop_back|pop|truncate|split_off)$|Iterator::(take|take_while|step_by|skip|nth)$", n):
                        if slot_hits(slots, b, deep_places(b, t["args"][0], 6)) & {key}:
                            partial.append(n.split("::")[-1])
                ctx.ob("W7", "%s.%s|%s wakes every registered waker" % (key[0], key[1], fn), full and not partial, b.where(),
                       "whole-collection iteration: %s; partial operations on the slot: %s — the queue may hold stale or "
                       "duplicate wakers (re-polls, cancelled futures), so waking only some entries can leave a live "
                       "waiter asleep on a satisfied condition" % (full, partial or "none"))

    # ---------------------------------------------------------------- W3
    # ---------------------------------------------------------------- W8
    ctx.rule("W8", "registration replaces: a single-waker slot (Option<Waker>) is overwritten with the current task's waker on every "
                   "pending poll — never filled only when empty (get_or_insert*, `if slot.is_none()`): a stale waker left by a "
                   "cancelled future would otherwise shadow the task that is really waiting")
    singles = {k: v for k, v in slots.items() if k not in MULTI and not v["composite"] and v["ty"].replace(" ", "").startswith("core::option::Option<core::task::wake::Waker")}
    ctx.floor("W8", "single-waker slots (Option<Waker>)", len(singles), 10)
    nst = 0
    for b in prog.bodies.values():
        if b.crate in SKIP_CRATES or b.kind in ("const", "promoted"):
            continue
        for i, t in b.calls():
            n_ = callee(t)
            if re.search(r"option::Option(<.*>|::<.*>)?::(get_or_insert_with|get_or_insert)$", n_) and t["args"]:
                hs = slot_hits(singles, b, deep_places(b, t["args"][0], 3))
                for k in sorted(hs):
                    nst += 1
                    ctx.touch(b)
                    ctx.ob("W8", "%s.%s|%s registers by replacing" % (k[0], k[1], b.short), False, b.where(t["line"]),
                           "`%s` keeps a waker that is already parked: after a waiter's future is dropped (select!, timeout, move to "
                           "another task) the next waiter goes Pending without being registered and the notifier wakes the dead one"
                           % n_.split("::")[-1])
        # direct stores  slot = Some(waker)  that run only when the slot was tested empty
        for (i, j, pl, rv, line) in b.assigns():
            hs = slot_hits(singles, b, [pl])
            if not hs:
                continue
            is_some = False
            if rv[0] == "agg" and rv[1].get("variant") == "Some":
                is_some = True
            src = op_place(rv[1]) if rv[0] == "use" else None
            if src is not None and len(src) == 1:
                for (bb, jj, rv2) in b.defs_of(src[0]):
                    if jj != "term" and rv2[0] == "agg" and rv2[1].get("variant") == "Some":
                        is_some = True
            if not is_some:
                continue
            only_empty = False
            for ci, ct in b.calls():
                m_ = re.search(r"option::Option(<.*>|::<.*>)?::(is_none|is_some)$", callee(ct))
                if m_ and ct["args"] and len(ct["dest"]) == 1 and slot_hits(singles, b, deep_places(b, ct["args"][0], 3)) & hs:
                    if runs_only_when(b, ct["dest"][0], m_.group(2) == "is_none", i):
                        only_empty = True
            for k in sorted(hs):
                nst += 1
                ctx.touch(b)
                ctx.ob("W8", "%s.%s|%s registers by replacing" % (k[0], k[1], b.short), not only_empty, b.where(line),
                       "store runs only when the slot was found empty: %s" % only_empty)
    ctx.floor("W8", "single-slot registration sites examined", nst, 12)
    # ---------------------------------------------------------------- W9
    ctx.rule("W9", "a reset wakes the reader unconditionally: Recv::recv_reset and SizeKnown::recv_reset wake the parked reader on every "
                   "path that accepts the reset (the reader parked precisely because nothing was readable)")
    for name in ("qrecovery::recv::recver::Recv::recv_reset", "qrecovery::recv::recver::SizeKnown::recv_reset"):
        b = ctx.anchor("W9", name)
        if not b:
            continue
        wakes = set(call_blocks(b, r"::wake_reader$|task::wake::Waker::(wake|wake_by_ref)$"))
        oks = [i for (i, j, rv, line) in agg_sites(b, r"^core::result::Result$", "Ok")]
        ok = bool(wakes) and bool(oks) and all(not (o in b.reachable_from(0, avoid=wakes)) for o in oks)
        ctx.ob("W9", "%s|every accepted reset wakes the reader" % b.short, ok, b.where(),
               "wake sites %s; Ok(..) sites %s; an Ok return reachable without passing a wake: %s — a wake-up guarded by `is_readable()` "
               "never fires for a parked reader, which then sleeps forever although its next poll would return the reset error"
               % (sorted(wakes), oks, not ok))
    ctx.rule("W3", "check and registration in one critical section: every function that stores into or wakes a slot either has "
                   "exclusive access to the state (`&mut self` / `Pin<&mut Self>`) or takes the state's lock exactly once, "
                   "before touching the slot")
    n3 = 0
    for key, s_ in sorted(slots.items()):
        if s_["composite"]:
            continue
        for fn in sorted(s_["stores"] | s_["wakes"]):
            for b in prog.by_short.get(fn, []):
                if b.argc < 1 or b.kind not in ("fn", "assoc_fn"):
                    continue
                ty = b.local_ty(1)
                if ty.startswith("&mut") or ty.startswith("core::pin::Pin<&mut") or not ty.startswith("&"):
                    continue  # exclusive by type (or by value)
                n3 += 1
                ctx.touch(b)
                locks = call_blocks(b, r"sync::poison::mutex::Mutex::lock$|sync::poison::rwlock::RwLock::write$|::lock_guard$")
                # blocks touching the slot: assignments to it / wake calls deriving from it
                touch = set()
                for (i, j, pl, rv, line) in b.assigns():
                    if slot_hits(slots, b, [pl] + [o[1] for o in b.trace_local(pl[0]) if o[0] == "place"]) & {key}:
                        touch.add(i)
                for i, t in b.calls():
                    if re.search(r"task::wake::Waker::(wake|wake_by_ref)$", callee(t)) and t["args"] and slot_hits(slots, b, deep_places(b, t["args"][0])) & {key}:
                        touch.add(i)
                ok = len(locks) == 1 and all(b.dominates(locks[0], x) for x in touch)
                ctx.ob("W3", "%s.%s|%s locks once around the slot" % (key[0].split("::")[-1], key[1], fn), ok, b.where(),
                       "shared receiver `%s`; lock acquisitions %s; slot touched at %s: one critical section covers the condition "
                       "check and the slot: %s (two separate acquisitions leave a window in which the notifier runs between "
                       "check and registration)" % (ty[:40], locks, sorted(touch), ok))
    ctx.floor("W3", "shared-receiver waiter/notifier functions", n3, 5)
    # ---------------------------------------------------------------- W4
    for fn, helpers in CLOSE_FANOUT:
        b = ctx.anchor("W4", fn)
        if not b:
            continue
        for rx in helpers:
            ctx.ob("W4", "%s|%s" % (b.short, rx.rstrip("$")), bool(calls(b, rx)), b.where(),
                   "connection failure wakes the sleepers of this state: %s" % bool(calls(b, rx)))

    # ---------------------------------------------------------------- W5
    n5 = 0
    for b in sorted(prog.bodies.values(), key=lambda x: x.id):
        if b.crate in SKIP_CRATES or b.kind not in ("fn", "assoc_fn"):
            continue
        self_adt = b.get("self_adt")
        if not self_adt:
            continue
        old_slots = [k for k in slots if k[0] == self_adt and not slots[k]["composite"]]
        if not old_slots:
            continue
        for (i, j, rv, line) in agg_sites(b, r".*"):
            new_adt = rv[1]["adt"]
            if new_adt == self_adt:
                continue
            new_slots = [k for k in slots if k[0] == new_adt and not slots[k]["composite"]]
            if not new_slots:
                continue
            fields = rv[1]["fields"]
            for (na, fname) in new_slots:
                if (self_adt, fname) not in slots or fname not in fields:
                    continue
                n5 += 1
                op = rv[2][fields.index(fname)]
                src = deep_places(b, op, 5)
                ok = any(place_has_field(p_, self_adt, fname) for p_ in src)
                ctx.ob("W5", "%s|%s.%s carried into %s" % (b.short, self_adt.split("::")[-1], fname, new_adt.split("::")[-1]), ok, b.where(line),
                       "successor field %s initialised from the predecessor's %s: %s (a dropped waker means a task waiting "
                       "across the state change is never woken)" % (fname, fname, ok))
    ctx.floor("W5", "waker fields handed over between states", n5, 4)

    # ---------------------------------------------------------------- W6
    n6 = 0
    for b in sorted(prog.bodies.values(), key=lambda x: x.id):
        if b.crate in SKIP_CRATES or b.kind not in ("fn", "assoc_fn"):
            continue
        wk = call_blocks(b, r"net::tx::ArcSendWaker::wake_by$|net::tx::ArcSendWakers::wake_all_by$")
        if not wk:
            continue
        locks = call_blocks(b, r"sync::poison::mutex::Mutex::lock$|sync::poison::rwlock::RwLock::write$")
        if not locks:
            continue
        n6 += 1
        ctx.touch(b)
        # a lock acquired only after the wake, through which a value is then stored
        late = []
        for l in locks:
            if any(l in b.reachable_from(w) and not b.dominates(l, w) for w in wk):
                # is something written through this guard afterwards?
                r = b.reachable_from(l)
                wrote = any(len(p_) >= 2 and p_[1] == "*" and rv_[0] in ("use", "agg") for (i_, j_, p_, rv_, ln_) in b.assigns() if i_ in r) or \
                    any(re.search(r"::(push|push_back|push_front|insert|extend|replace)$", callee(t_)) for i_, t_ in b.calls() if i_ in r)
                if wrote:
                    late.append(l)
        ctx.ob("W6", "%s|publish before wake" % b.short, not late, b.where(),
               "wake at %s; publishing lock acquired after the wake at %s — the woken task can run, find nothing and go "
               "back to sleep before the item is stored; the item then waits for an unrelated signal"
               % (["bb%d" % x for x in wk], ["bb%d" % x for x in late] or "none"))
    ctx.floor("W6", "functions that wake the sender and take a lock", n6, 3)
    ctx.assume("Waker::wake / wake_by_ref schedule the task (executor contract)")
    ctx.assume("forwarding the Context to another poll function registers the waker when that function returns Pending (checked for workspace functions by W1, assumed for tokio/futures)")
