"""C05 — Declared encoding sizes agree with what the encoders write (structural clauses)."""
from rules.common import *

TECHNIQUE = ("static analysis: symbolic size terms — per frame kind the multiset of (primitive, frame field) terms written by "
             "the encoder is extracted from MIR by def-use and compared with the terms summed by encoding_size()/"
             "max_encoding_size(), following nested size functions")
LEVEL_TEXT = ("Static analysis of the type-checked MIR of /repo: for every frame kind the encoder body "
              "(WriteFrame::put_frame / WriteDataFrame::put_data_frame) is abstracted to the set of size terms it writes — "
              "varint(field), varint(len(field)), bytes(field), cid(field), fixed-width integers — by tracing each "
              "primitive write's operand back to the frame field it comes from; encoding_size() (and the size functions it "
              "calls) is abstracted to the terms it sums; the two must agree on which fields are counted as variable-length "
              "integers and on length prefixes, and an all-constant max_encoding_size() must bound the declared size under "
              "varint <= 8, cid <= 21. This decides 'writer and size tables agree', a necessary condition of 'the announced "
              "size equals the bytes written'; it does not decide value-level round-trip equality.")
NOT_DECIDED = ["decode(encode(x)) == x for all values (round-trip equality)", "varint boundary arithmetic of put_varint/be_varint",
               "packet header and transport-parameter encoders (only frames are covered by the size-term rule)"]

FIXED = {"put_u8": 1, "put_u16": 2, "put_u32": 4, "put_u64": 8, "put_u128": 16, "put_i8": 1}


def frame_fields(body, op, frame_adts):
    """(adt, field) pairs of frame structs that the operand's value derives from, and whether a len() call intervenes"""
    fields = set()
    via_len = False
    for pl in deep_places(body, op, 6):
        for (f, a) in place_field_adts(pl):
            if a and a.startswith("qbase::") and _scalar_field(body.prog, a, f):
                fields.add((a, f))
    # len() in the def-use chain
    p = op_place(op)
    if p is not None:
        seen = set()
        work = [p[0]]
        d = 0
        while work and d < 40:
            d += 1
            l = work.pop()
            if l in seen:
                continue
            seen.add(l)
            for (bb, jj, rv) in body.defs_of(l):
                if jj == "term":
                    n = callee(rv)
                    if re.search(r"::len$|::remaining$", n):
                        via_len = True
                    for a in rv["args"]:
                        q = op_place(a)
                        if q is not None:
                            work.append(q[0])
                else:
                    for q in rvalue_places(rv):
                        work.append(q[0])
    return fields, via_len


_SCALAR = re.compile(r"^(qbase::varint::VarInt|qbase::sid::StreamId|u8|u16|u32|u64|usize|qbase::error::ErrorKind|qbase::error::ErrorFrameType|"
                     r"qbase::frame::\w+::\w+|qbase::net::\w+::\w+|alloc::vec::Vec<u8>|bytes::bytes::Bytes|alloc::borrow::Cow<.*str>|alloc::string::String)$")


def _scalar_field(prog, adt, f):
    a = prog.adts.get(adt)
    if a is None:
        return True
    for v in a["variants"]:
        for fl in v["fields"]:
            if fl["n"] == f:
                return bool(_SCALAR.match(fl["ty"]))
    return True


def encoder_terms(prog, b):
    terms = []
    for i, t in b.calls():
        n = callee(t)
        no = callee_orig(t)
        if re.search(r"WriteVarInt>?::put_varint$", n) or no.endswith("WriteVarInt::put_varint"):
            f, vl = frame_fields(b, t["args"][1], None)
            terms.append(("varint_len" if vl else "varint", frozenset(f)))
        elif re.search(r"BufMut::put_slice$|BufMut::put$", no) or re.search(r"BufMut>?::put_slice$", n):
            f, vl = frame_fields(b, t["args"][1], None)
            terms.append(("bytes", frozenset(f)))
        elif re.search(r"WriteConnectionId>?::put_connection_id$", n) or no.endswith("put_connection_id"):
            f, vl = frame_fields(b, t["args"][1], None)
            terms.append(("cid", frozenset(f)))
        elif re.search(r"WriteStreamId>?::put_streamid$", n) or no.endswith("put_streamid"):
            f, vl = frame_fields(b, t["args"][1], None)
            terms.append(("varint", frozenset(f)))
        elif no.endswith("WriteFrameType::put_frame_type") or n.endswith("put_frame_type"):
            terms.append(("ftype", frozenset()))
        else:
            m = re.search(r"BufMut::(put_u8|put_u16|put_u32|put_u64|put_u128|put_i8)$", no or n)
            if m:
                terms.append(("fixed%d" % FIXED[m.group(1)], frozenset()))
    return terms


def size_terms(prog, b, depth=3, seen=None):
    seen = seen or set()
    terms = []
    if b.id in seen:
        return terms
    seen.add(b.id)
    bodies = [b] + [c for c in prog.with_closures(b) if c is not b]
    for bb in bodies:
        for i, t in bb.calls():
            n = callee(t)
            if n.endswith("varint::VarInt::encoding_size") or n.endswith("sid::StreamId::encoding_size"):
                f, vl = frame_fields(bb, t["args"][0], None)
                terms.append(("varint_len" if vl else "varint", frozenset(f)))
            elif any(op_const(a) and (op_const(a).get("fn_name", "").endswith("varint::VarInt::encoding_size")) for a in t["args"]) or \
                    any(x.endswith("varint::{impl#0}::encoding_size") or "VarInt" in x and x.endswith("encoding_size") for x in t["f"].get("fns", [])):
                f, vl = frame_fields(bb, t["args"][0], None)
                terms.append(("varint_len" if vl else "varint", frozenset(f)))
            elif re.search(r"::len$", n):
                f, vl = frame_fields(bb, t["args"][0], None)
                terms.append(("bytes", frozenset(f)))
            elif n.endswith("::encoding_size") and depth > 0:
                for c in prog.by_short.get(n, []):
                    terms += size_terms(prog, c, depth - 1, seen)
    return terms


def const_sum(b):
    """sum of constant operands of the Add chain, if the body is straight-line and all-constant; else None"""
    if any(b.term(i)["t"] == "switch" for i in b.live_blocks()):
        return None
    tot = 0
    for (i, j, p, rv, line) in b.assigns():
        if rv[0] == "bin" and rv[1] in ("AddWithOverflow", "Add"):
            for o in (rv[2], rv[3]):
                v = const_int(o)
                if v is not None:
                    tot += v
                elif op_place(o) is None:
                    return None
    if any(True for _ in b.calls()):
        return None
    return tot


def run(ctx):
    prog = ctx.prog
    ctx.rule("R2", "symbolic size agreement: the fields an encoder writes as variable-length integers / length-prefixed byte "
                   "strings are exactly those its encoding_size() counts as such; an all-constant max_encoding_size() bounds it")
    encs = {}
    for b in prog.find(r"^qbase::frame::.*<impl qbase::frame::io::Write(Data)?Frame<qbase::frame::[\w:]+(, D)?> for T>::put_(data_)?frame$"):
        m = re.search(r"Write(?:Data)?Frame<(qbase::frame::[\w:]+)", b.short)
        encs[m.group(1)] = b
    ctx.floor("R2", "frame encoders", len(encs), 26)
    n = 0
    for adt, eb in sorted(encs.items()):
        sbs = prog.by_short.get("<%s as qbase::frame::EncodeSize>::encoding_size" % adt, [])
        if adt in ("qbase::frame::Frame", "qbase::frame::StreamCtlFrame", "qbase::frame::ReliableFrame"):
            continue  # enum dispatchers delegate to the per-kind impls
        if len(sbs) != 1 and all(k == "ftype" for (k, fs) in encoder_terms(prog, eb)):
            continue  # frames without fields use the trait's default size (one type byte)
        if len(sbs) != 1:
            if adt.endswith("::Frame") or adt.endswith("StreamCtlFrame") or adt.endswith("ReliableFrame"):
                continue  # enum dispatchers delegate to the per-kind impls
            ctx.ob("R2", "%s|has encoding_size" % adt, False, eb.where(), "no unique EncodeSize::encoding_size for %s" % adt)
            continue
        sb = sbs[0]
        ctx.touch(eb)
        ctx.touch(sb)
        n += 1
        et = encoder_terms(prog, eb)
        st = size_terms(prog, sb)
        ev = set(f for (k, fs) in et if k == "varint" for f in fs)
        sv = set(f for (k, fs) in st if k == "varint" for f in fs)
        ctx.ob("R2", "%s|varint fields agree" % adt.split("::")[-1], ev == sv, sb.where(),
               "encoder writes as varints the fields %s; encoding_size counts varint sizes of %s — a field counted twice, "
               "missed, or counted for the wrong field makes the announced size differ from the bytes written whenever the "
               "two values fall into different varint widths" % (sorted(f for _, f in ev), sorted(f for _, f in sv)))
        el = sorted(tuple(sorted(f for _, f in fs)) for (k, fs) in et if k == "varint_len")
        sl = sorted(tuple(sorted(f for _, f in fs)) for (k, fs) in st if k == "varint_len")
        ctx.ob("R2", "%s|length prefixes agree" % adt.split("::")[-1], set(el) == set(sl), sb.where(),
               "encoder writes varint(len(..)) of %s; encoding_size counts varint sizes of lengths of %s — a length prefix "
               "sized as a constant is wrong as soon as the length needs a 2-byte varint (>= 64)" % (el, sl))
        mb = prog.by_short.get("<%s as qbase::frame::EncodeSize>::max_encoding_size" % adt, [])
        if len(mb) == 1:
            cs = const_sum(mb[0])
            if cs is not None:
                nv = len([1 for (k, fs) in et if k in ("varint", "varint_len")])
                nc = len([1 for (k, fs) in et if k == "cid"])
                fx = sum(int(k[5:]) for (k, fs) in et if k.startswith("fixed"))
                nb = [fs for (k, fs) in et if k == "bytes"]
                straight = not any(eb.term(i)["t"] == "switch" for i in eb.live_blocks())
                if straight and not any(True for fs in nb if not _fixed_bytes(eb, fs)):
                    fixed_bytes = sum(_fixed_bytes(eb, fs) for fs in nb)
                    ft = 4 if re.search(r"punch|add_address|remove_address", adt) else 1
                    bound = ft + 8 * nv + 21 * nc + fx + fixed_bytes
                    ctx.ob("R2", "%s|max_encoding_size bounds the encoder" % adt.split("::")[-1], cs >= bound, mb[0].where(),
                           "max_encoding_size() = %d; encoder upper bound = type %d + 8*%d varints + 21*%d cids + %d fixed = %d"
                           % (cs, ft, nv, nc, fx + fixed_bytes, bound))
    ctx.floor("R2", "encoder/size pairs compared", n, 21)
    # ---------------------------------------------------------------- R1: field order written == field order parsed
    ctx.rule("R1", "codec shape agreement: the order in which an encoder writes a frame's fields equals the order in which the "
                   "frame's parser reads the values that reach those fields (straight-line encoders with sequential or tuple parsers)")
    from rules.nomclass import is_nom_result_ty
    n1 = 0
    for adt, eb in sorted(encs.items()):
        if any(eb.term(i)["t"] == "switch" for i in eb.live_blocks()):
            continue  # branchy encoders (Stream, Ack, ConnectionClose, Datagram...) are covered by R2 only
        rpo = {b_: k for k, b_ in enumerate(eb._rpo())}
        enc_order = []
        for i, t in sorted(eb.calls(), key=lambda x: rpo.get(x[0], 0)):
            nm = callee(t) + " " + (callee_orig(t) or "")
            if re.search(r"put_varint|put_slice|put_connection_id|put_streamid|put_u\d+|put_reset_token|put_socket_addr|put_endpoint", nm) and len(t["args"]) > 1:
                fs, _ = frame_fields(eb, t["args"][1], None)
                fs = [f for (a, f) in fs if a == adt]
                if len(fs) == 1 and (not enc_order or enc_order[-1] != fs[0]):
                    enc_order.append(fs[0])
        if len(enc_order) < 2:
            continue
        # the parser: a body (or closure) in the frame's module that builds the frame struct
        def in_parser(b_):
            if is_nom_result_ty(b_.local_ty(0)):
                return True
            par = prog.bodies.get(b_.get("parent")) if b_.kind == "closure" else None
            return par is not None and (is_nom_result_ty(par.local_ty(0)) or in_parser(par))
        decs = [b_ for b_ in prog.bodies.values() if b_.crate == "qbase" and b_.short.startswith(adt.rsplit("::", 1)[0] + "::") and
                in_parser(b_) and agg_sites(b_, "^" + re.escape(adt) + "$")]
        if len(decs) != 1:
            continue
        db = decs[0]
        drpo = {b_: k for k, b_ in enumerate(db._rpo())}
        (ai, aj, arv, aline) = agg_sites(db, "^" + re.escape(adt) + "$")[0]
        dec_pos = {}
        for fname, op in zip(arv[1]["fields"], arv[2]):
            # walk back to the parser call that produced the value; remember a tuple index on the way
            seen = set()
            work = [(op, None)]
            best = None
            while work:
                o, tix = work.pop()
                pl = op_place(o)
                if pl is None or (pl[0], tix) in seen:
                    continue
                seen.add((pl[0], tix))
                proj = [e for e in pl[1:] if isinstance(e, str) and e.startswith(".")]
                if proj and tix is None and len(proj) >= 1:
                    k = proj[-1][1:].split(":")[0]
                    tix = int(k) if k.isdigit() else None
                if db.kind == "closure" and pl[0] == 2 and tix is not None and not is_nom_result_ty(db.local_ty(0)):
                    # `map((p0, p1, ..), |(a, b, ..)| Frame { .. })`: the closure's tuple argument carries the parser order
                    cand = (0, tix)
                    if best is None or cand < best:
                        best = cand
                    continue
                for (bb, jj, rv) in db.defs_of(pl[0]):
                    if jj == "term":
                        if is_nom_result_ty(db.local_ty(rv["dest"][0])) and not callee(rv).endswith("Try>::branch"):
                            cand = (drpo.get(bb, 0), tix if tix is not None else 0)
                            if best is None or cand < best:
                                best = cand
                        else:
                            for a in rv["args"]:
                                work.append((a, tix))
                    else:
                        for a in rvalue_operands(rv):
                            work.append((a, tix))
                        for q in rvalue_places(rv):
                            work.append((["c", q], tix))
            if best is not None:
                dec_pos[fname] = best
        common = [f for f in enc_order if f in dec_pos]
        if len(common) < 2 or len(set(dec_pos[f] for f in common)) < len(common):
            continue  # order not recoverable for this parser shape
        n1 += 1
        ctx.touch(db)
        dec_order = sorted(common, key=lambda f: dec_pos[f])
        ctx.ob("R1", "%s|encoder and parser agree on field order" % adt.split("::")[-1], common == dec_order, eb.where(),
               "encoder writes %s; parser reads %s — swapped writes of two same-typed fields keep every size and type check "
               "happy but decode into the wrong fields" % (common, dec_order))
    ctx.floor("R1", "frames with a recoverable field order on both sides", n1, 8)
    # ---------------------------------------------------------------- R3: frame-type code points
    ctx.rule("R3", "frame-type code points: the table FrameType -> VarInt (encoder) and the table VarInt -> FrameType (decoder) are "
                   "inverse on every constant entry, and the computed families (STREAM 0x08..0x0f, DATAGRAM 0x30/0x31, address "
                   "frames) start at the base the decoder's range starts at")
    enc = ctx.anchor("R3", "qbase::frame::<impl core::convert::From<qbase::frame::FrameType> for qbase::varint::VarInt>::from")
    dec = ctx.anchor("R3", "<qbase::frame::FrameType as core::convert::TryFrom<qbase::varint::VarInt>>::try_from")
    if enc and dec:
        E = {}

        def adt_at(body, place):
            ty = body.local_ty(place[0]).lstrip("&").strip().split("<")[0]
            variant = None
            cur = ty
            for e in place[1:]:
                if e.startswith("@"):
                    variant = e[1:]
                elif e.startswith("."):
                    a = prog.adts.get(cur)
                    if a is None:
                        return None
                    vs = [v for v in a["variants"] if variant is None or v["n"] == variant]
                    fs = [f for f in (vs[0]["fields"] if vs else []) if f["n"] == e[1:].split(":")[0]]
                    if not fs:
                        return None
                    cur = fs[0]["ty"].split("<")[0]
                    variant = None
            return cur

        def walk(blk, path, depth):
            if depth > 4:
                return
            t = enc.term(blk)
            if t["t"] == "switch":
                pl = op_place(t["on"])
                src = None
                if pl and len(pl) == 1:
                    for (bb, jj, rv) in enc.defs_of(pl[0]):
                        if jj != "term" and rv[0] == "disc" and bb == blk:
                            src = rv[1]
                if src is not None:
                    adt = adt_at(enc, src)
                    names = variant_names(prog, adt) if adt else None
                    if names:
                        for v, tgt in t["cases"]:
                            walk(tgt, path + [names.get(int(v), "?")], depth + 1)
                        return
            if t["t"] == "call" and re.search(r"VarInt::from_u32$|VarInt as core::convert::From<u(8|16|32)>>::from$", callee(t)) and t["args"]:
                a = t["args"][0]
                if const_int(a) is not None:
                    E[tuple(path)] = ("exact", const_int(a))
                else:
                    base = None
                    q = op_place(a)
                    if q is not None:
                        for og in enc.trace_local(q[0]):
                            if og[0] == "rv" and og[1][0] == "bin" and og[1][1] == "BitOr":
                                base = const_int(og[1][2]) if const_int(og[1][2]) is not None else const_int(og[1][3])
                                if base is None:
                                    # 0x08 | offset | len | fin: the constant sits at the bottom of an OR chain
                                    work_ = [og[1][2], og[1][3]]
                                    for _ in range(6):
                                        nxt = []
                                        for o_ in work_:
                                            if const_int(o_) is not None:
                                                base = const_int(o_)
                                            elif op_place(o_) is not None:
                                                for og2 in enc.trace_local(op_place(o_)[0]):
                                                    if og2[0] == "rv" and og2[1][0] == "bin" and og2[1][1] == "BitOr":
                                                        nxt += [og2[1][2], og2[1][3]]
                                        work_ = nxt
                                        if base is not None or not work_:
                                            break
                    E[tuple(path)] = ("base", base)
                return
            for s_ in enc.succ(blk):
                if enc.term(s_)["t"] != "unreachable" and s_ != blk:
                    walk(s_, path, depth + 1)
        walk(0, [], 0)
        D = {}
        ranges = {}
        for sbk in dec.live_blocks():
            t = dec.term(sbk)
            if t["t"] == "switch" and len(t["cases"]) > 10:
                for v, tgt in t["cases"]:
                    aggs = [(rv[1]["adt"], rv[1]["variant"], rv[2]) for s_ in dec.stmts(tgt) if s_[0] == "=" for rv in [s_[2]] if rv[0] == "agg" and rv[1]["k"] == "adt"]
                    ft = [a for a in aggs if a[0] == "qbase::frame::FrameType"]
                    sub = [a for a in aggs if a[0] != "qbase::frame::FrameType"]
                    if ft:
                        key = (ft[0][1],) + ((sub[0][1],) if sub else ())
                        computed = any(s_[0] == "=" and s_[2][0] == "bin" for s_ in dec.stmts(tgt))
                        if computed:
                            ranges.setdefault(ft[0][1], []).append(int(v))
                        else:
                            D[int(v)] = key
        # STREAM: two range comparisons against constants
        lo = [const_int(rv[2]) for (i, j, p, rv, line) in dec.assigns() if rv[0] == "bin" and rv[1] == "Le" and const_int(rv[2]) is not None]
        hi = [const_int(rv[3]) for (i, j, p, rv, line) in dec.assigns() if rv[0] == "bin" and rv[1] == "Le" and const_int(rv[3]) is not None]
        if lo and hi:
            ranges["Stream"] = list(range(min(lo), max(hi) + 1))
        ctx.floor("R3", "constant entries of the decoder table", len(D), 24)
        ctx.floor("R3", "entries of the encoder table", len(E), 28)
        for code, key in sorted(D.items()):
            e = E.get(key)
            ok = False
            if e is not None and e[0] == "exact":
                ok = e[1] == code
            elif e is None and E.get(key[:1]) is not None and E[key[:1]][0] == "base" and len(key) == 2:
                base = E[key[:1]][1]
                sub_adt = None
                # index of the sub-variant in its enum = the low bit(s) OR-ed onto the base
                for n, a in prog.adts.items():
                    if a["kind"] == "enum" and any(v["n"] == key[1] for v in a["variants"]) and n in ("qbase::net::Family",):
                        sub_adt = n
                idx = None
                if sub_adt:
                    idx = [k for k, nm in (variant_names(prog, sub_adt) or {}).items() if nm == key[1]]
                ok = base is not None and idx and (base | idx[0]) == code
            ctx.ob("R3", "FrameType::%s <-> %#x" % ("(".join(key) + (")" if len(key) > 1 else ""), code), bool(ok), dec.where(),
                   "decoder maps %#x to %s; encoder maps it to %s — a mismatch makes the peer (or this endpoint) read a different "
                   "frame than was written" % (code, key, e if e is not None else E.get(key[:1])))
        for fam, codes in sorted(ranges.items()):
            e = E.get((fam,))
            ok = e is not None and e[0] == "base" and e[1] == min(codes)
            ctx.ob("R3", "FrameType::%s family starts at %#x" % (fam, min(codes)), ok, dec.where(),
                   "decoder accepts %s for %s; encoder ORs the flag bits onto %s" % ([hex(c) for c in codes], fam, e))
        extra = [k for k, v in E.items() if v[0] == "exact" and D.get(v[1]) != k]
        ctx.ob("R3", "every constant the encoder writes is decoded back to the same kind", not extra, enc.where(), "encoder-only entries: %s" % (extra or "none"))
    # ---------------------------------------------------------------- R4: sibling helper agreement of value codecs
    ctx.rule("R4", "value codecs (preferred_address, endpoint_addr, link, streamid, frame_type): the encoder `put_X` and the decoder `be_X` "
                   "are built from the same sub-codecs (put_Y used iff be_Y used, for Y in connection_id / reset_token / socket_addr / "
                   "varint / streamid / endpoint_addr) — two helpers with different wire layouts for the same type cannot be mixed")
    LEAF = {"connection_id", "reset_token", "socket_addr", "varint", "streamid", "endpoint_addr"}
    PAIRS = ["preferred_address", "endpoint_addr", "link", "streamid", "frame_type"]
    puts_, bes_ = {}, {}
    for b_ in prog.bodies.values():
        if b_.crate != "qbase" or b_.kind in ("const", "promoted", "closure"):
            continue
        last = b_.short.split("::")[-1]
        m_ = re.match(r"put_(\w+)$", last)
        if m_:
            puts_.setdefault(m_.group(1), []).append(b_)
        m_ = re.match(r"be_(\w+)$", last)
        if m_:
            bes_.setdefault(m_.group(1), []).append(b_)

    def sub_codecs(bodies, rx):
        out = set()
        for b_ in bodies:
            for bb_ in prog.with_closures(b_):
                for i_, t_ in bb_.calls():
                    nm_ = callee(t_) + " " + (callee_orig(t_) or "")
                    for m_ in re.finditer(rx, nm_):
                        out.add(m_.group(1))
                    for k_ in t_["f"].get("fns", []):
                        kb_ = prog.bodies.get(k_)
                        if kb_ is not None:
                            m_ = re.search(rx, kb_.short + " ")
                            if m_:
                                out.add(m_.group(1))
        return out
    n4 = 0
    for name in PAIRS:
        if name not in puts_ or name not in bes_:
            ctx.ob("R4", "anchor:put_%s / be_%s" % (name, name), False, "", "encoder or decoder not found")
            continue
        n4 += 1
        for b_ in puts_[name] + bes_[name]:
            ctx.touch(b_)
        e_ = (sub_codecs(puts_[name], r"put_(\w+?)[ $>]|put_(\w+)$") & LEAF) - {name}
        e_ |= set(x for x in sub_codecs(puts_[name], r"::put_(\w+) ") if x in LEAF and x != name)
        d_ = (sub_codecs(bes_[name], r"::be_(\w+) ") & LEAF) - {name}
        ctx.ob("R4", "%s|encoder and decoder use the same sub-codecs" % name, e_ == d_, puts_[name][0].where(),
               "put_%s is built from put_{%s}; be_%s from be_{%s} — e.g. put_socket_addr writes port-then-address (the ADD_ADDRESS layout) "
               "while the preferred_address parameter is address-then-port: same size, different value after decoding"
               % (name, ",".join(sorted(e_)), name, ",".join(sorted(d_))))
    ctx.floor("R4", "value codec pairs compared", n4, 5)
    # ---------------------------------------------------------------- R5: the decoder admits every value the encoder can write
    ctx.rule("R5", "decoder-side validity checks are no stricter than the wire format: be_new_connection_id_frame rejects exactly "
                   "retire_prior_to > sequence (RFC 9000 §19.15 allows equality, and the encoder writes such frames)")
    nd = ctx.anchor("R5", "qbase::frame::new_connection_id::be_new_connection_id_frame")
    if nd:
        # guards that lead to an nom Verify error and compare two parsed varints
        rels = []
        for sbk in nd.live_blocks():
            t = nd.term(sbk)
            if t["t"] != "switch":
                continue
            pl = op_place(t["on"])
            if pl is None or len(pl) != 1:
                continue
            for (bb, jj, rv) in nd.defs_of(pl[0]):
                if jj == "term" and re.search(r"PartialOrd(<.*>)?>?::(gt|ge|lt|le)$|cmp::PartialOrd::(gt|ge|lt|le)$", callee(rv)) and len(rv["args"]) == 2:
                    # the two fields are the results of the first and the second be_varint call of the parser
                    vcalls = sorted(i_ for i_, t_ in nd.calls() if callee(t_).endswith("varint::be_varint"))
                    rpo_ = {b_: k for k, b_ in enumerate(nd._rpo())}
                    vcalls.sort(key=lambda x: rpo_.get(x, 0))
                    names = []
                    for a in rv["args"]:
                        nm = None
                        for q in deep_places(nd, a, 6):
                            for og in nd.trace_local(q[0]):
                                if og[0] == "call" and callee(og[2]).endswith("varint::be_varint") and og[1] in vcalls[:2]:
                                    nm = ("sequence", "retire_prior_to")[vcalls.index(og[1])]
                        names.append(nm)
                    tr, fa = switch_edges_on_local(nd, sbk)
                    errs = set(i for (i, j, rv2, line) in agg_sites(nd, r"nom::internal::Err$|^nom::Err$|internal::Err$", "Error"))
                    err_on_true = any(e in nd.reachable_from(list(tr), avoid={sbk}) for e in errs) and not any(e in nd.reachable_from(list(fa), avoid={sbk}) and
                                                                                                            e not in nd.reachable_from(list(tr), avoid={sbk}) for e in errs if False)
                    rels.append((callee(rv).split("::")[-1], names, err_on_true))
                if jj != "term" and rv[0] == "bin" and rv[1] in ("Gt", "Ge", "Lt", "Le"):
                    rels.append((rv[1].lower(), [None, None], None))
        norm = []
        for (op, names, err_on_true) in rels:
            if names == ["retire_prior_to", "sequence"]:
                norm.append(op)
            elif names == ["sequence", "retire_prior_to"]:
                norm.append({"gt": "lt", "ge": "le", "lt": "gt", "le": "ge"}[op])
        ctx.ob("R5", "%s|rejects exactly retire_prior_to > sequence" % nd.short, norm == ["gt"], nd.where(),
               "comparisons between the two parsed fields, normalised to `retire_prior_to OP sequence` with the error on the true edge: %s — "
               "`>=` refuses the legal frame that retires every older id (retire_prior_to == sequence): a conforming peer's frame "
               "becomes a FRAME_ENCODING_ERROR, and encode -> decode is no longer the identity" % norm)
    ctx.assume("put_varint writes exactly VarInt::encoding_size() bytes; put_connection_id writes 1 + len (value-level)")


def _fixed_bytes(b, fs):
    """size of a fixed-size array field written with put_slice (reset token = 16, path data = 8), else 0"""
    for (a, f) in fs:
        adt = b.prog.adts.get(a)
        if adt:
            for v in adt["variants"]:
                for fl in v["fields"]:
                    if fl["n"] == f:
                        m = re.match(r"\[u8; (\d+)\]", fl["ty"])
                        if m:
                            return int(m.group(1))
                        if fl["ty"].endswith("token::ResetToken"):
                            return 16
    return 0
