"""C11 — Flow-control limits are never exceeded and violations are detected (structural clauses)."""
from rules.common import *

TECHNIQUE = ("static analysis: constant flow of ParameterId into window arguments (selection table + per-path agreement), "
             "dominance of the limit check before buffering, write-site classification of credit/limit fields, colour-test "
             "extraction in the send buffer")
LEVEL_TEXT = ("Static analysis of the type-checked MIR of /repo: for every site that creates or revises a stream or "
              "connection window, the transport-parameter constants that flow into the window argument are computed and "
              "compared with RFC 9000 §18.2 (and all paths must agree); in the receiving state every path that buffers "
              "stream data passes the comparison against the advertised stream limit with FLOW_CONTROL_ERROR on the large "
              "side; sent_data/credit are written only by commit(+)/return_back(-)/post_sent, Credit is created only by "
              "ArcSendControler::credit and its Drop returns what is left; freshly written bytes are always coloured "
              "Pending (so they are charged); advertised limits are written only by additions or guarded increases. "
              "Necessary structural conditions on all paths; the running inequalities are not decided.")
NOT_DECIDED = ["the running inequality sent <= limit over histories (interval arithmetic of SendBuf/BufMap: C09)",
               "fresh-byte accounting of the receive buffer (C08)", "that min(available, quota) is computed correctly (value-level)"]

DS = "qrecovery::streams::raw::DataStreams"
PID = "qbase::param::core::ParameterId"


def _pids(body, op):
    return sorted(v for (a, v) in deep_aggs(body, op) if a == PID)


def run(ctx):
    prog = ctx.prog
    ctx.rule("R1", "parameter-selection table (RFC 9000 §18.2): the ParameterId constants flowing into each window match the "
                   "stream kind and direction, and every path computing one window uses the same constant")
    ctx.rule("R2", "limit check before buffering: in the Recv state every call that buffers stream data is (or is dominated "
                   "by the success of) a function comparing against max_stream_data with FLOW_CONTROL_ERROR; the connection "
                   "controller is charged with the fresh-byte count and its error propagated")
    ctx.rule("R3", "credit accounting: sent_data written only by commit(+=)/return_back(-=); Credit built only by "
                   "ArcSendControler::credit; Drop returns the rest; post_sent is the only other writer; new bytes are coloured Pending")
    ctx.rule("R4", "advertised limits and the received extent never decrease: RecvController.max_data, Recv.max_stream_data and Recv.largest are written only by "
                   "additions or under `new > old`")
    ctx.rule("R5", "prescribed errors present: Recv::recv and RecvController::on_new_rcvd construct FLOW_CONTROL_ERROR")

    # ---------------------------------------------------------------- R1
    table = [
        (DS + "::poll_open_bi_stream", r"DataStreams::create_sender$", 2, {"InitialMaxStreamDataBidiRemote"}, None),
        (DS + "::poll_open_bi_stream", r"DataStreams::create_recver$", 2, None, "initial_max_stream_data_bidi_local"),
        (DS + "::poll_open_uni_stream", r"DataStreams::create_sender$", 2, {"InitialMaxStreamDataUni"}, None),
        (DS + "::try_accept_bi_sid", r"DataStreams::create_recver$", 2, None, "initial_max_stream_data_bidi_remote"),
        (DS + "::try_accept_uni_sid", r"DataStreams::create_recver$", 2, None, "initial_max_stream_data_uni"),
        ("qrecovery::streams::listener::Listener::poll_accept_bi_stream", r"ArcSender::update_window$", 1, {"InitialMaxStreamDataBidiLocal"}, None),
        (DS + "::revise_params", r"ArcOutputGuard::revise_max_stream_data$", 4, {"InitialMaxStreamDataBidiRemote"}, None),
        (DS + "::revise_params", r"ArcOutputGuard::revise_max_stream_data$", 5, {"InitialMaxStreamDataUni"}, None),
        (DS + "::revise_params", r"ArcLocalStreamIds::revise_max_streams$", 2, {"InitialMaxStreamsBidi"}, None),
        (DS + "::revise_params", r"ArcLocalStreamIds::revise_max_streams$", 3, {"InitialMaxStreamsUni"}, None),
    ]
    for (fn, sink, argi, want_pids, want_field) in table:
        b = ctx.anchor("R1", fn)
        if not b:
            continue
        cs = calls(b, sink)
        if not cs:
            ctx.ob("R1", "%s|%s arg%d" % (b.short, sink.rstrip("$"), argi), False, b.where(), "window sink call not found: failing closed")
            continue
        for (i, t) in cs:
            op = t["args"][argi]
            if want_pids is not None:
                got = set(_pids(b, op))
                ctx.ob("R1", "%s|%s arg%d <- %s" % (b.short, sink.rstrip("$").split("::")[-1], argi, "+".join(sorted(want_pids))), got == want_pids, b.where(t["line"]),
                       "window argument derives from transport parameters %s; RFC 9000 §18.2 requires %s on every path "
                       "(a different id on one path gives that stream kind the wrong send window)" % (sorted(got), sorted(want_pids)))
            else:
                fs = set()
                for pl in deep_places(b, op, 4):
                    fs |= set(f for (f, a) in place_field_adts(pl) if a and a.endswith("raw::DataStreams"))
                ctx.ob("R1", "%s|%s arg%d <- self.%s" % (b.short, sink.rstrip("$").split("::")[-1], argi, want_field), fs == {want_field}, b.where(t["line"]),
                       "receive window taken from DataStreams fields %s (expected %s)" % (sorted(fs), want_field))
    # the DataStreams fields themselves are initialised from the matching local parameters
    nb = ctx.anchor("R1", DS + "::new")
    if nb:
        for (i, j, rv, line) in agg_sites(nb, r"raw::DataStreams$"):
            fields = rv[1]["fields"]
            for fname, pid in (("initial_max_stream_data_bidi_local", "InitialMaxStreamDataBidiLocal"),
                               ("initial_max_stream_data_bidi_remote", "InitialMaxStreamDataBidiRemote"),
                               ("initial_max_stream_data_uni", "InitialMaxStreamDataUni")):
                if fname not in fields:
                    ctx.ob("R1", "%s|field %s" % (nb.short, fname), False, nb.where(line), "field missing")
                    continue
                got = set(_pids(nb, rv[2][fields.index(fname)]))
                ctx.ob("R1", "%s|%s <- local %s" % (nb.short, fname, pid), got == {pid}, nb.where(line), "initialised from %s" % sorted(got))
    # connection-level windows
    for b in prog.find(r"FlowController::new$"):
        pass
    sites = prog.call_sites(r"qbase::flow::FlowController::new$")
    ctx.floor("R1", "FlowController::new call sites", len(sites), 1)
    for (b, i, t) in sites:
        ctx.touch(b)
        for ai in (0, 1):
            got = set(_pids(b, t["args"][ai]))
            ctx.ob("R1", "%s|FlowController::new arg%d <- InitialMaxData" % (b.short, ai), got == {"InitialMaxData"}, b.where(t["line"]),
                   "connection window derives from %s" % sorted(got))

    # ---------------------------------------------------------------- R2
    # functions that compare against Recv.max_stream_data and raise FlowControl
    chk = set()
    for b in prog.bodies.values():
        if not b.short.startswith("qrecovery::recv::"):
            continue
        fc = [i for (i, j, rv, line) in agg_sites(b, r"error::ErrorKind$", "FlowControl")]
        if not fc:
            continue
        reads = False
        for (i, j, p, rv, line) in b.assigns():
            if rv[0] == "bin" and rv[1] in ("Gt", "Ge", "Lt", "Le"):
                sides = [rv[2], rv[3]]
                lim = [k for k, o in enumerate(sides) if op_place(o) is not None and (
                    place_has_field(op_place(o), "recver::Recv", "max_stream_data") or
                    any(og[0] == "place" and place_has_field(og[1], "recver::Recv", "max_stream_data") for og in local_origins(b, o)))]
                if not lim:
                    continue
                other = sides[1 - lim[0]]
                # the compared quantity must be the END of the data (offset + length), not the offset alone
                is_end = False
                q = op_place(other)
                if q is not None:
                    for og in b.trace_local(q[0]):
                        if og[0] == "place" and len(og[1]) == 2 and og[1][1] == ".0":
                            if any(jj != "term" and rv2[0] == "bin" and rv2[1] == "AddWithOverflow" for (bb, jj, rv2) in b.defs_of(og[1][0])):
                                is_end = True
                        if og[0] == "rv" and og[1][0] == "bin" and og[1][1] in ("Add", "AddWithOverflow"):
                            is_end = True
                if is_end:
                    reads = True
                else:
                    ctx.note("R2: %s compares max_stream_data with a value that is not offset + length (not counted as a limit check)" % b.short)
        if reads:
            chk.add(b.short)
    ctx.stats["R2.limit_checking_functions"] = sorted(chk)
    inc = ctx.anchor("R2", "qrecovery::recv::incoming::Incoming::recv_data")
    if inc:
        tb = arm_table(prog, inc, "qrecovery::recv::recver::Recver") or {}
        arm = tb.get("Recv")
        ctx.ob("R2", "%s|Recv arm present" % inc.short, arm is not None, inc.where(), "match on the receiving state has a Recv arm")
        if arm:
            buffering = [(i, t) for i, t in inc.calls() if i in arm["blocks"] and re.search(r"recver::(Recv|SizeKnown)::recv$", callee(t))]
            ctx.floor("R2", "buffering calls in the Recv arm", len(buffering), 2)
            for (i, t) in buffering:
                name = callee(t)
                ok = name in chk
                via = "itself checks the limit" if ok else ""
                if not ok:
                    for (i2, t2) in inc.calls():
                        if i2 in arm["blocks"] and callee(t2) in chk and guarded_by_ok(inc, i2, i):
                            ok = True
                            via = "dominated by the success of %s" % callee(t2)
                ctx.ob("R2", "%s|%s is preceded by the stream-limit check" % (inc.short, name.split("::")[-2] + "::recv"), ok, inc.where(t["line"]),
                       "buffering call %s in the Recv state: %s — a STREAM frame carrying FIN goes through determin_size and "
                       "SizeKnown::recv; if neither compares against max_stream_data, data beyond the advertised stream "
                       "limit is buffered instead of FLOW_CONTROL_ERROR" % (name, via or "NO function on this path compares against max_stream_data"))
    # connection level: fresh bytes charged, error propagated
    for b in prog.find(r"^<qconnection::space::FlowControlledDataStreams as qbase::frame::io::ReceiveFrame<.*>>::recv_frame$"):
        ctx.touch(b)
        cs = calls(b, r"FlowController::on_new_rcvd$")
        ok = False
        det = "no on_new_rcvd call"
        for (i, t) in cs:
            src = [callee(o[2]) for o in local_origins(b, t["args"][2]) if o[0] == "call"] + \
                  ["place" for o in local_origins(b, t["args"][2]) if o[0] == "place"]
            oe = outcome_edges(b, i)
            prop = oe is not None and bool(oe["err"])
            ok = prop
            det = "amount from %s; error edge tested: %s" % (src[:2], prop)
        ctx.ob("R2", "%s|fresh bytes charged to the connection window, error propagated" % b.short, ok, b.where(), det)
    ctx.floor("R2", "FlowControlledDataStreams handlers", len(prog.find(r"^<qconnection::space::FlowControlledDataStreams as qbase::frame::io::ReceiveFrame<.*>>::recv_frame$")), 2)

    # ---------------------------------------------------------------- R3
    w = {}
    for (b, i, j, p, rv, line) in field_writes(prog, "SendControler", "sent_data"):
        if b.short.endswith("::new"):
            continue
        w.setdefault(b.short, []).append(classify_write(b, i, j)[0])
    exp = {"qbase::flow::SendControler::commit": ["add"], "qbase::flow::SendControler::return_back": ["sub"]}
    ctx.ob("R3", "SendControler.sent_data writers", w == exp, "qbase/src/flow.rs", "writers %s (expected %s)" % (w, exp))
    ctors = [b.short for b in prog.bodies.values() for _ in agg_sites(b, r"^qbase::flow::Credit$")]
    ctx.ob("R3", "Credit constructed only by ArcSendControler::credit", ctors == ["qbase::flow::ArcSendControler::credit"], "qbase/src/flow.rs", "constructors: %s" % ctors)
    cb = ctx.anchor("R3", "qbase::flow::ArcSendControler::credit")
    if cb:
        cm = calls(cb, r"SendControler::commit$")
        ok = False
        for (i, t) in cm:
            # the committed amount is what the Credit carries
            for (i2, j2, rv, line) in agg_sites(cb, r"^qbase::flow::Credit$"):
                av = rv[2][rv[1]["fields"].index("available")]
                a1 = set(tuple(p_) for p_ in deep_places(cb, av, 4))
                a2 = set(tuple(p_) for p_ in deep_places(cb, t["args"][1], 4))
                ok = bool(a1 & a2) and cb.dominates(i, i2)
        ctx.ob("R3", "%s|commit(x) then Credit{available: x}" % cb.short, ok, cb.where(), "credit handed out equals the amount committed: %s" % ok)
    db = ctx.anchor("R3", "<qbase::flow::Credit as core::ops::drop::Drop>::drop")
    if db:
        ok = False
        for (i, t) in calls(db, r"SendControler::return_back$"):
            ok = any(place_has_field(p_, "flow::Credit", "available") for p_ in deep_places(db, t["args"][1], 4))
        ctx.ob("R3", "%s|returns the unused rest" % db.short, ok, db.where(), "Drop calls return_back(self.available): %s" % ok)
    aw = {}
    for (b, i, j, p, rv, line) in field_writes(prog, "flow::Credit", "available"):
        aw.setdefault(b.short, []).append(classify_write(b, i, j)[0])
    ctx.ob("R3", "Credit.available writers", aw == {"qbase::flow::Credit::post_sent": ["sub"]}, "qbase/src/flow.rs", "writers %s" % aw)
    ld = ctx.anchor("R3", DS + "::try_load_data_into_once")
    if ld:
        ps = calls(ld, r"flow::Credit::post_sent$")
        ctx.ob("R3", "%s|post_sent called" % ld.short, len(ps) >= 1, ld.where(), "fresh bytes are reported to the credit: %d site(s)" % len(ps))
    et = ctx.anchor("R3", "qrecovery::send::sndbuf::BufMap::extend_to")
    if et:
        push = call_blocks(et, r"VecDeque::push_back$")
        skip_colours = None
        names = variant_names(prog, "qrecovery::send::sndbuf::Color") or {}
        if push:
            pb = push[0]
            # (a) eq(color, promoted) form
            for (i, t) in et.calls():
                if callee(t).endswith("sndbuf::Color as core::cmp::PartialEq>::eq"):
                    col = None
                    for o in local_origins(et, t["args"][1]):
                        if o[0] == "const" and o[1] and "promoted" in o[1]:
                            prb = prog.bodies.get("%s::promoted[%d]" % (o[1]["promoted_of"], o[1]["promoted"]))
                            if prb:
                                for (_, _, _, rv, _) in prb.assigns():
                                    if rv[0] == "agg" and rv[1]["k"] == "adt" and rv[1]["adt"].endswith("sndbuf::Color"):
                                        col = rv[1]["variant"]
                    oe = outcome_edges(et, i)
                    if oe and col:
                        skips_on_true = pb not in et.reachable_from(list(oe["ok"]), avoid={i})
                        skips_on_false = pb not in et.reachable_from(list(oe["err"]), avoid={i})
                        if skips_on_true and not skips_on_false:
                            skip_colours = {col}
            # (c) `back().is_some_and(|s| s.color() == Pending)` and `if !that { push }`
            if skip_colours is None:
                from rules.C09 import true_colours
                for (i, t) in et.calls():
                    if re.search(r"Option(<.*>|::<.*>)?::(is_some_and|map_or|is_none_or)$", callee(t)) and len(t["dest"]) == 1:
                        for k_ in t["f"].get("fns", []):
                            kb_ = prog.bodies.get(k_)
                            if kb_ is None:
                                continue
                            cols = true_colours(prog, kb_)
                            if cols and cols != {"Pending", "Flighting", "Recved", "Lost"} and callee(t).endswith("is_some_and"):
                                if runs_only_when(et, t["dest"][0], False, pb):
                                    skip_colours = set(cols)
            # (b) switch on the colour discriminant
            if skip_colours is None:
                for sb in et.live_blocks():
                    t = et.term(sb)
                    if t["t"] != "switch":
                        continue
                    pl = op_place(t["on"])
                    if pl and len(pl) == 1 and any(jj != "term" and rv[0] == "disc" and "sndbuf::Color" in et.local_ty(rv[1][0])
                                                   for (bb, jj, rv) in et.defs_of(pl[0])):
                        sc = set()
                        for v, tgt in t["cases"]:
                            if pb not in et.reachable_from(tgt, avoid={sb}):
                                sc.add(names.get(int(v), "?"))
                        skip_colours = sc
        ctx.ob("R3", "%s|new bytes join only a Pending tail" % et.short, skip_colours == {"Pending"}, et.where(),
               "colours of the last segment for which no new Pending segment is pushed: %s — bytes appended to a Lost (or "
               "Flighting/Recved) segment inherit its colour, are picked as a retransmission and bypass the connection credit"
               % (sorted(skip_colours) if skip_colours is not None else "unrecognised"))

    # ---------------------------------------------------------------- R4
    for adt, f in (("RecvController", "max_data"), ("recver::Recv", "max_stream_data"), ("recver::Recv", "largest")):
        ws = [(b, i, j, p, rv, line) for (b, i, j, p, rv, line) in field_writes(prog, adt, f) if not b.short.endswith("::new")]
        ctx.floor("R4", "%s.%s write sites" % (adt, f), len(ws), 1)
        for (b, i, j, p, rv, line) in ws:
            ctx.touch(b)
            kind = classify_write(b, i, j)
            ok = kind[0] == "add" or guarded_increase(b, i, j)
            ctx.ob("R4", "%s|%s.%s only grows" % (b.short, adt.split("::")[-1], f), ok, b.where(line),
                   "write shape `%s`; guarded by new > old: %s" % (kind[0], guarded_increase(b, i, j) if kind[0] != "add" else "n/a"))

    # ---------------------------------------------------------------- R5
    for name in ("qrecovery::recv::recver::Recv::recv", "qbase::flow::RecvController::on_new_rcvd"):
        b = ctx.anchor("R5", name)
        if b:
            fc = [(i, line) for (i, j, rv, line) in agg_sites(b, r"error::ErrorKind$", "FlowControl")]
            cond = [i for (i, line) in fc if not all(b.dominates(i, r) for r in b.return_blocks())]
            ctx.ob("R5", "%s|FLOW_CONTROL_ERROR" % b.short, bool(fc) and len(cond) == len(fc), b.where(), "FlowControl constructions: %d, conditional: %d" % (len(fc), len(cond)))
    # strictness and operands of the per-stream limit comparison: the error is raised exactly when end > limit
    for name in ("qrecovery::recv::recver::Recv::recv", "qrecovery::recv::recver::Recv::determin_size"):
        b = ctx.anchor("R5", name)
        if not b:
            continue
        got = []
        for (i, j, rv, line) in agg_sites(b, r"error::ErrorKind$", "FlowControl"):
            g = guard_cmp(b, i)
            if g is None:
                got.append("<no comparison recognised>")
                continue
            (sw, op, x, y) = g

            def cls(o):
                rs = value_roles(b, o)
                if any(r.startswith("sum(") and "StreamFrame::offset" in r and "::len" in r for r in rs):
                    return "END"
                if "field:Recv.max_stream_data" in rs:
                    return "LIMIT"
                return "|".join(sorted(rs))
            cx, cy = cls(x), cls(y)
            if cx > cy:
                cx, cy, op = cy, cx, {"Gt": "Lt", "Ge": "Le", "Lt": "Gt", "Le": "Ge", "Eq": "Eq", "Ne": "Ne"}[op]
            got.append("%s %s %s" % (cx, op, cy))
        ctx.ob("R5", "%s|FLOW_CONTROL_ERROR exactly when END > LIMIT" % b.short, got == ["END Gt LIMIT"], b.where(),
               "relation that holds when the error is built: %s (END = frame offset + data length, LIMIT = Recv.max_stream_data); "
               "`>=` would refuse data that exactly fills the advertised window, a comparison of the offset alone admits a frame "
               "that straddles the limit" % got)
    # ---------------------------------------------------------------- R6: what a RESET_STREAM charges
    ctx.rule("R6", "a reset charges what was never received: Recv::recv_reset returns final_size minus the largest offset received "
                   "*before* this frame (no write of Recv.largest precedes the subtraction), and that amount reaches the connection "
                   "controller")
    rr = ctx.anchor("R6", "qrecovery::recv::recver::Recv::recv_reset")
    if rr:
        subs = []
        for (i, j, p, rv, line) in rr.assigns():
            if rv[0] == "bin" and rv[1] in ("SubWithOverflow", "Sub", "SubUnchecked"):
                ra, rb = value_roles(rr, rv[2]), value_roles(rr, rv[3])
                if any("final_size" in r for r in ra) and "field:Recv.largest" in rb:
                    subs.append((i, line))
        ws = [i for (b, i, j, p, rv, line) in field_writes(prog, "recver::Recv", "largest", [rr])]
        ctx.floor("R6", "`final_size - largest` in Recv::recv_reset", len(subs), 1)
        early = [(w, s_) for w in ws for (s_, _) in subs if s_ in rr.reachable_from(w) or s_ == w]
        oks = ok_return_sites(rr)
        ret_from_sub = False
        for o_ in oks:
            for (i, j, p, rv, line) in rr.assigns():
                if i == o_ and rv[0] == "agg" and rv[1].get("variant") == "Ok":
                    for a in rv[2]:
                        if any(r.startswith("diff(") and "final_size" in r and "Recv.largest" in r for r in value_roles(rr, a)) or \
                                any(og[0] == "rv" for og in local_origins(rr, a)):
                            ret_from_sub = True
        ctx.ob("R6", "%s|returns final_size - largest as it was on entry" % rr.short, bool(subs) and not early and ret_from_sub, rr.where(),
               "subtractions %s; writes of Recv.largest that can precede one: %s; Ok(..) carries the difference: %s — if `largest` is "
               "overwritten first the difference is always 0: bytes a peer claims through RESET_STREAM final sizes are never charged to "
               "the connection window, so it can exceed MAX_DATA without a FLOW_CONTROL_ERROR" % (subs, early or "none", ret_from_sub))
    ctx.assume("SendBuf::pick charges flow_limit only for Pending-coloured picks and reports is_fresh for them (value-level, C09)")
