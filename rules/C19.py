"""C19 — Datagrams are carried whole, within the peer's size limit, or not at all (structural clauses)."""
from rules.common import *

TECHNIQUE = ("static analysis: call-graph reachability of the datagram queue from packet assembly (resolved edges only), "
             "exactly-one pop/dump per path, presence and conditionality of the size checks and their errors")
LEVEL_TEXT = ("Static analysis of the type-checked MIR of /repo: the function that turns a queued datagram into a DATAGRAM "
              "frame must be reachable (over resolved call edges and dyn Package impls) from the connection's packet "
              "assembly; in that function every path pops exactly one datagram and dumps exactly one frame carrying it; "
              "the sender's admission test and the receiver's size test are present, conditional, and construct the "
              "prescribed errors; a zero limit disables writer/reader creation. Necessary structural conditions.")
NOT_DECIDED = ["ordering among arriving datagrams and payload equality (values)",
"congestion/open-connection preconditions of 'actually put on the wire'"]

OUT = "qdatagram::writer::DatagramOutgoing::try_load_data_into"


def run(ctx):
    prog = ctx.prog
    ctx.rule("R1", "queued datagrams are offered to packet assembly: DatagramOutgoing::try_load_data_into is reachable from a qconnection body")
    ctx.rule("R2", "one frame per datagram: each path pops exactly one queue element and dumps exactly one (DatagramFrame, Bytes)")
    ctx.rule("R3", "sender admission: send_bytes rejects data larger than the peer's max_datagram_frame_size before queuing")
    ctx.rule("R5", "sender/loader agreement: the loader adds the length field only when the frame still fits the peer's "
                   "max_datagram_frame_size (or admission already bounds the longest encoding)")
    ctx.rule("R4", "receiver: a datagram larger than the local maximum gives PROTOCOL_VIOLATION before it is queued; a zero limit disables reader/writer")

    # ---------------------------------------------------------------- R1
    b = ctx.anchor("R1", OUT)
    if b:
        callers = prog.callers()
        seen = {b.id}
        work = [b.id]
        roots = set()
        while work:
            x = work.pop()
            for (cid, kind, blk) in callers.get(x, []):
                if kind == "ref":
                    pass
                if cid not in seen:
                    seen.add(cid)
                    work.append(cid)
        qc = sorted(prog.bodies[x].short for x in seen if x in prog.bodies and prog.bodies[x].short.startswith("qconnection::"))
        ctx.stats["R1.transitive_callers"] = sorted(prog.bodies[x].short for x in seen if x in prog.bodies)
        ctx.ob("R1", "%s|reachable from connection packet assembly" % b.short, bool(qc), b.where(),
               "transitive callers: %s; among them qconnection bodies: %s — an accepted datagram is queued by "
               "DatagramWriter::send_bytes but nothing in the connection ever drains the queue into a packet "
               "(Components::packages has `// TODO: datagram`), so it is never put on the wire"
               % (ctx.stats["R1.transitive_callers"], qc or "NONE"))
        # ------------------------------------------------------------ R2
        pops = call_blocks(b, r"VecDeque::pop_front$")
        dumps = call_blocks(b, r"Package<.*>>::dump$|io::Package::dump$")
        ok = len(pops) == 1 and len(dumps) >= 1
        if ok:
            # every path from the pop to return passes a dump; no dump reaches another dump
            r = b.reachable_from(pops[0], avoid=set(dumps))
            ok = not (r & set(b.return_blocks()))
            for d in dumps:
                if any(d2 in b.reachable_from(d) for d2 in dumps if d2 != d and d2 in b.reachable_from(b.term(d).get("to") if b.term(d).get("to") is not None else d)):
                    ok = False
        ctx.ob("R2", "%s|pop one, dump one" % b.short, ok, b.where(),
               "pop_front sites %s; dump sites %s; every path after the pop dumps exactly once: %s" % (pops, dumps, ok))
        # the dumped payload is the popped datagram
        ok2 = True
        for d in dumps:
            t = b.term(d)
            pls = deep_places(b, t["args"][0], 6)
            src = any(og[0] == "call" and callee(og[2]).endswith("VecDeque::pop_front") for pl in pls for og in b.trace_local(pl[0]))
            ok2 = ok2 and src
        ctx.ob("R2", "%s|the frame carries the popped datagram" % b.short, ok2 and bool(dumps), b.where(), "payload of each dump derives from pop_front(): %s" % ok2)
    if b:
        # the no-length form extends to the end of the packet: any filler must be written *before* the frame
        pads = call_blocks(b, r"BufMut::put_bytes$|buf_mut::BufMut::put_bytes$")
        dumps_ = call_blocks(b, r"Package<.*>>::dump$|io::Package::dump$")
        bad = [(p_, d_) for p_ in pads for d_ in dumps_ if p_ in b.reachable_from(d_) and not b.dominates(p_, d_)]
        after_only = [p_ for p_ in pads if any(p_ in b.reachable_from(d_) for d_ in dumps_)]
        ctx.ob("R2", "%s|padding precedes the no-length frame" % b.short, bool(pads) and not after_only, b.where(),
               "filler writes %s, frame dumps %s; filler written after a frame: %s — a DATAGRAM frame without length runs to "
               "the end of the packet, so bytes written after it are delivered to the peer as payload" % (pads, dumps_, after_only or "none"))
    # ---------------------------------------------------------------- R3
    sb = ctx.anchor("R3", "qdatagram::writer::DatagramWriter::send_bytes")
    if sb:
        push = call_blocks(sb, r"VecDeque::push_back$")
        errs = call_blocks(sb, r"std::io::error::Error::new$")
        cmp_ok = False
        for (i, j, p, rv, line) in sb.assigns():
            if rv[0] == "bin" and rv[1] in ("Gt", "Ge", "Lt", "Le"):
                for o in (rv[2], rv[3]):
                    if any(place_has_field(pl, "DatagramWriter", "max_datagram_frame_size") for pl in deep_places(sb, o, 3)):
                        cmp_ok = True
        ok = bool(push) and bool(errs) and cmp_ok and all(p_ not in sb.reachable_from(e) for e in errs for p_ in push)
        ctx.ob("R3", "%s|size test before queuing" % sb.short, ok, sb.where(),
               "comparison with max_datagram_frame_size: %s; error exits %s never reach the push %s" % (cmp_ok, errs, push))
    # ---------------------------------------------------------------- R4
    rb = ctx.anchor("R4", "qdatagram::reader::DatagramIncoming::recv_datagram")
    if rb:
        pv = [i for (i, j, rv, line) in agg_sites(rb, r"error::ErrorKind$", "ProtocolViolation")]
        push = call_blocks(rb, r"VecDeque::push_back$")
        cmp_ok = False
        for (i, j, p, rv, line) in rb.assigns():
            if rv[0] == "bin" and rv[1] in ("Gt", "Ge", "Lt", "Le"):
                for o in (rv[2], rv[3]):
                    if any(place_has_field(pl, "RawDatagarmReader", "local_max_size") for pl in deep_places(rb, o, 3)):
                        cmp_ok = True
        ok = bool(pv) and bool(push) and cmp_ok and all(p_ not in rb.reachable_from(e) for e in pv for p_ in push)
        kinds = sorted(set(rv[1]["variant"] for (i, j, rv, line) in agg_sites(rb, r"error::ErrorKind$")))
        # what is measured: the whole frame (type + optional length + payload), as RFC 9221 §3 defines the limit
        meas = []
        for (i_, j_, rv_, line_) in agg_sites(rb, r"error::ErrorKind$", "ProtocolViolation"):
            g = guard_cmp(rb, i_)
            if g is None:
                continue
            (sw_, op_, x_, y_) = g
            rx_, ry_ = value_roles(rb, x_), value_roles(rb, y_)
            lim_x = any("local_max_size" in r for r in rx_)
            lim_y = any("local_max_size" in r for r in ry_)
            if lim_x == lim_y:
                continue
            size_roles, op_n = (ry_, {"Gt": "Lt", "Ge": "Le", "Lt": "Gt", "Le": "Ge"}.get(op_, op_)) if lim_x else (rx_, op_)
            meas.append((sorted(size_roles), op_n))
        whole = bool(meas) and all(any("encoding_size" in r and "len" in r for r in roles) and op_n == "Gt" for (roles, op_n) in meas)
        ctx.ob("R4", "%s|the limit is applied to the whole frame (encoding_size + payload), strictly" % rb.short, whole, rb.where(),
               "quantity compared with local_max_size when the error is raised: %s — max_datagram_frame_size bounds the entire frame "
               "including type and length fields; measuring the payload alone accepts frames up to 9 bytes over the limit (and an empty "
               "datagram when datagrams are disabled)" % meas)
        ctx.ob("R4", "%s|oversized datagram -> ProtocolViolation, not queued" % rb.short, ok and kinds == ["ProtocolViolation"], rb.where(),
               "error kinds %s; comparison with local_max_size: %s; error path never queues: %s" % (kinds, cmp_ok, ok))
    for name, fld in (("qdatagram::writer::DatagramOutgoing::new_writer", None), ("qdatagram::reader::DatagramIncoming::new_reader", "local_max_size")):
        b = ctx.anchor("R4", name)
        if b:
            zero = any(rv[0] == "bin" and rv[1] == "Eq" and const_int(rv[3]) == 0 for (i, j, p, rv, line) in b.assigns())
            errs = call_blocks(b, r"std::io::error::Error::new$")
            ctx.ob("R4", "%s|zero limit disables it" % b.short, zero and bool(errs), b.where(), "`== 0` test: %s, error exit: %s" % (zero, bool(errs)))
    # ---------------------------------------------------------------- R5
    lb = prog.by_short.get(OUT, [None])[0]
    if sb and lb:
        # (A) does admission measure an encoded size (frame.encoding_size() + len) rather than the shortest form?
        adm = []
        for (i, j, rv, line) in [(i, j, rv, line) for (i, j, p, rv, line) in sb.assigns() if rv[0] == "bin" and rv[1] in ("Gt", "Ge", "Lt", "Le")]:
            roles = value_roles(sb, rv[2]) | value_roles(sb, rv[3])
            if any("max_datagram_frame_size" in r for r in roles):
                adm.append(sorted(roles))
        cond_a = any(any("encoding_size" in r for r in roles) for roles in adm)
        # (B) is the with-length form chosen only under a comparison with the peer's limit?
        with_len = []
        for d in call_blocks(lb, r"Package<.*>>::dump$|io::Package::dump$"):
            t = lb.term(d)
            for pl in deep_places(lb, t["args"][0], 6):
                for og in lb.trace_local(pl[0]):
                    if og[0] == "call" and callee(og[2]).endswith("DatagramFrame::new") and og[2]["args"] and const_int(og[2]["args"][0]) == 1:
                        with_len.append(d)
        with_len = sorted(set(with_len))
        limit_cmp = []   # (bool local, truth value under which the frame fits)
        for (i, j, p, rv, line) in lb.assigns():
            if rv[0] == "bin" and rv[1] in ("Gt", "Ge", "Lt", "Le") and len(p) == 1:
                ra, rb_ = value_roles(lb, rv[2]), value_roles(lb, rv[3])
                la = any(re.search(r"field:\w*Writer\.max", r) for r in ra)
                lb2 = any(re.search(r"field:\w*Writer\.max", r) for r in rb_)
                if la == lb2:
                    continue
                # normalise to  SIZE op LIMIT
                op = rv[1] if lb2 else {"Gt": "Lt", "Ge": "Le", "Lt": "Gt", "Le": "Ge"}[rv[1]]
                # which frame's encoding_size() is measured on the SIZE side
                size_op = rv[2] if lb2 else rv[3]
                measured = set()
                for pl_ in deep_places(lb, size_op, 6):
                    for og_ in lb.trace_local(pl_[0]):
                        if og_[0] == "call" and re.search(r"encoding_size$", callee(og_[2])) and og_[2]["args"]:
                            for q_ in deep_places(lb, og_[2]["args"][0], 3):
                                for og2_ in lb.trace_local(q_[0]):
                                    if og2_[0] == "call" and callee(og2_[2]).endswith("DatagramFrame::new"):
                                        measured.add(og2_[1])     # identity of a frame value = the block of its constructor call
                limit_cmp.append((p[0], op in ("Le", "Lt"), line, measured))
        # the frame each with-length dump writes
        dumped = {}
        for d in with_len:
            nm_ = set()
            for pl_ in deep_places(lb, lb.term(d)["args"][0], 6):
                if lb.local_ty(pl_[0]).strip().endswith("DatagramFrame"):
                    for og2_ in lb.trace_local(pl_[0]):
                        if og2_[0] == "call" and callee(og2_[2]).endswith("DatagramFrame::new"):
                            nm_.add(og2_[1])
            dumped[d] = nm_
        cond_b = bool(with_len) and all(any(runs_only_when(lb, l, fits, d) and (not dumped[d] or not meas or (meas & dumped[d]))
                                            for (l, fits, _, meas) in limit_cmp) for d in with_len)
        ctx.floor("R5", "with-length dump sites in the loader", len(with_len), 1)
        ctx.ob("R5", "%s|an admitted datagram is never encoded larger than the peer's limit" % lb.short, cond_a or cond_b, lb.where(),
               "admission comparisons %s (measure an encoded size: %s); with-length dumps at %s, comparisons with the peer's limit at lines %s "
               "(every with-length dump guarded by a comparison that measures the frame it dumps: %s) — admission bounds only the shortest form (1 + len), so unless the loader "
               "checks the limit before adding the length varint an admitted datagram leaves as a frame of limit+1/+2 bytes and "
               "the peer answers PROTOCOL_VIOLATION" % (adm, cond_a, ["bb%d:%s" % (d, sorted(dumped[d])) for d in with_len], ["L%s:%s" % (x[2], sorted(x[3])) for x in limit_cmp], cond_b))
    # ---------------------------------------------------------------- R6 by reference
    ctx.rule("R6", "the payload is cut out of the packet at the right place: the DATAGRAM body slices of the frame decoder start at "
                   "raw.len() - remainder.len() and are taken under remainder.len() >= length (C03-R8 obligations re-evaluated)")
    import importlib
    from qlint import framework as fw
    sub = fw.Ctx("C03", ctx.tier, ctx.seed, prog)
    importlib.import_module("rules.C03").run(sub)
    n6 = 0
    for o in sub.obs:
        if o.rule == "R8" and "floor:" not in o.key:
            n6 += 1
            ctx.ob("R6", "C03:%s" % o.key, o.ok, o.where, o.detail)
    ctx.functions |= sub.functions
    ctx.floor("R6", "body-slice obligations inherited from C03-R8", n6, 6)
    ctx.note("R3/R4: the sender admits 1 + len <= limit but may then encode a length varint; the receiver measures "
             "encoding_size() + len: boundary sizes accepted by the sender can be rejected by an identical peer (recorded as a note)")
