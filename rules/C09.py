"""C09 — The send buffer keeps every unacknowledged byte and offers it for resending (structural clauses only)."""
from rules.common import *

TECHNIQUE = ("static analysis: table extraction (the 2-bit colour code of State and its inverse), who-may-write-which-colour table over "
             "BufMap's methods, colour-constraint propagation along dominating colour tests (a Recved range is never recoloured; "
             "only Pending/Lost ranges are picked; only Recved ranges are released), def-use coupling between BufMap::shift and the "
             "bytes SendBuf drops")
LEVEL_TEXT = ("Static analysis of the type-checked MIR of /repo, SendBuf/BufMap only. Decided: (1) Color::prefix and State::color are "
              "inverse code tables and offsets are masked with the complementary mask; (2) each colour is written only by the "
              "operation that owns it (Pending: extend_to; Flighting: pick; Recved: ack_rcvd; Lost: may_loss / may_lost_from / "
              "resend_flighting; any other colour written is a colour read from the map); (3) no set_color(Lost) runs on a state "
              "whose colour may be Recved; (4) pick selects only Pending (when the flow limit allows) or Lost ranges and reports "
              "`fresh` exactly for Pending; (5) shift releases only Recved entries from the front, SendBuf::on_data_acked advances "
              "its offset to shift()'s result and drops exactly that many bytes, nothing else removes bytes; (6) write() stores the "
              "bytes whenever it extends the map, and is_all_rcvd is `no bytes left`. Necessary conditions of 'every unacknowledged "
              "byte stays available and lost bytes are offered again'; the split/merge index arithmetic of the colour map over "
              "ack/loss histories is NOT decided.")
NOT_DECIDED = ["split / merge index arithmetic of BufMap::{pick, ack_rcvd, may_loss, may_lost_from} (which entries are overwritten, "
               "inserted or drained): value-level over histories",
               "that the slices SendBuf::pick_up hands out are the bytes of the picked range (offset arithmetic)",
               "window arithmetic (send_window_size / allowance) of pick"]

SB = "qrecovery::send::sndbuf"
COLOURS = ["Pending", "Flighting", "Recved", "Lost"]


def promoted_colour(prog, body, op):
    """colour constant an operand refers to (a promoted `&Color::X`), or None"""
    for o in local_origins(body, op):
        if o[0] == "const" and o[1] and "promoted" in o[1]:
            prb = prog.bodies.get("%s::promoted[%d]" % (o[1]["promoted_of"], o[1]["promoted"]))
            if prb:
                for (_, _, _, rv, _) in prb.assigns():
                    if rv[0] == "agg" and rv[1]["k"] == "adt" and rv[1]["adt"].endswith("sndbuf::Color"):
                        return rv[1]["variant"]
        if o[0] == "rv" and o[1][0] == "agg" and o[1][1].get("adt", "").endswith("sndbuf::Color"):
            return o[1][1]["variant"]
    return None


def const_colour(body, op):
    """colour constant passed by value (`Color::Lost{}` aggregate), or None when the colour is a variable"""
    p = op_place(op)
    if p is None:
        return None
    ogs = local_origins(body, op)
    cols = set(o[1][1]["variant"] for o in ogs if o[0] == "rv" and o[1][0] == "agg" and o[1][1].get("adt", "").endswith("sndbuf::Color"))
    if len(cols) == 1 and all(o[0] == "rv" and o[1][0] == "agg" for o in ogs):
        return cols.pop()
    return None   # a variable (possibly with a constant default merged with values read from the map)


def colour_tests(prog, body):
    """tests of a colour value in `body`:
    [{subject: root local of the tested colour (or of the State it was read from), colour, true: edges, false: edges, blk}]"""
    names = variant_names(prog, SB + "::Color") or {}
    out = []

    def subject_of(op):
        # the colour operand is `&c` where c = State::color(&*s) or a colour-typed local
        for pl in deep_places(body, op, 3):
            for og in body.trace_local(pl[0]):
                if og[0] == "call" and callee(og[2]).endswith("sndbuf::State::color") and og[2]["args"]:
                    for q in deep_places(body, og[2]["args"][0], 3):
                        if body.local_name(q[0]):
                            return ("state", q[0])
            if body.local_name(pl[0]) and "sndbuf::Color" in body.local_ty(pl[0]):
                return ("colour", pl[0])
        return None
    for i, t in body.calls():
        nm = callee(t)
        m = re.search(r"sndbuf::Color as core::cmp::PartialEq>::(eq|ne)$", nm)
        if m and len(t["args"]) == 2 and len(t["dest"]) == 1:
            col = promoted_colour(prog, body, t["args"][1]) or promoted_colour(prog, body, t["args"][0])
            subj = subject_of(t["args"][0]) or subject_of(t["args"][1])
            if col is None:
                continue
            for (sbk, neg) in bool_switches(body, t["dest"][0]):
                tr, fa = switch_edges_on_local(body, sbk)
                if neg != (m.group(1) == "ne"):
                    tr, fa = fa, tr
                out.append({"subject": subj, "colours": {col}, "true": set(tr), "false": set(fa), "blk": sbk})
    # match on the colour discriminant
    for (i, j, p, rv, line) in body.assigns():
        if rv[0] == "disc" and len(p) == 1 and "sndbuf::Color" in body.local_ty(rv[1][0]):
            subj = None
            for og in body.trace_local(rv[1][0]):
                if og[0] == "call" and callee(og[2]).endswith("sndbuf::State::color") and og[2]["args"]:
                    for q in deep_places(body, og[2]["args"][0], 3):
                        if body.local_name(q[0]):
                            subj = ("state", q[0])
            if subj is None and body.local_name(rv[1][0]):
                subj = ("colour", rv[1][0])
            for sbk in body.live_blocks():
                tt = body.term(sbk)
                if tt["t"] == "switch" and op_place(tt["on"]) == p:
                    listed = {}
                    for v, tgt in tt["cases"]:
                        listed[names.get(int(v), "?")] = tgt
                    for col, tgt in listed.items():
                        others = set(x for c2, x in listed.items() if c2 != col)
                        if body.term(tt["else"])["t"] != "unreachable":
                            others.add(tt["else"])
                        out.append({"subject": subj, "colours": {col}, "true": {tgt}, "false": others, "blk": sbk})
                    # `matches!(colour, A | B)`: every arm only sets one bool local to a constant, then the bool is branched on
                    arms = dict(listed)
                    if body.term(tt["else"])["t"] != "unreachable":
                        arms["<else>"] = tt["else"]
                    flag = {}
                    for col, tgt in arms.items():
                        for s_ in body.stmts(tgt):
                            if s_[0] == "=" and len(s_[1]) == 1 and s_[2][0] == "use" and op_const(s_[2][1]) is not None and \
                                    op_const(s_[2][1]).get("ty") == "bool":
                                flag.setdefault(s_[1][0], {})[col] = const_int(s_[2][1]) == 1
                    for loc, m in flag.items():
                        if set(m) != set(arms):
                            continue
                        true_cols = set(c for c, v in m.items() if v and c != "<else>")
                        if m.get("<else>"):
                            true_cols |= set(COLOURS) - set(listed)
                        for (sb2, neg) in bool_switches(body, loc):
                            tr, fa = switch_edges_on_local(body, sb2)
                            if neg:
                                tr, fa = fa, tr
                            out.append({"subject": subj, "colours": true_cols, "true": set(tr), "false": set(fa), "blk": sb2})
    return out


def colours_at(body, tests, blk, subject=None):
    """colours the tested value may have when `blk` runs (intersection over dominating tests on `subject`)"""
    may = set(COLOURS)
    for t in tests:
        if subject is not None and t["subject"] is not None and t["subject"] != subject:
            continue
        sb = t["blk"]
        if not body.dominates(sb, blk) or sb == blk:
            continue
        via_true = blk in body.reachable_from(list(t["true"]), avoid={sb}) or blk in t["true"]
        via_false = blk in body.reachable_from(list(t["false"]), avoid={sb}) or blk in t["false"]
        if via_true and not via_false:
            may &= t["colours"]
        elif via_false and not via_true:
            may -= t["colours"]
    return may


def true_colours(prog, pred):
    """colours for which a bool closure over a State can return true"""
    tests = colour_tests(prog, pred)
    allowed = set()
    sites = [i for (i, j, p, rv, line) in pred.assigns() if p == [0] and rv[0] == "use" and const_int(rv[1]) == 1]
    for i in sites:
        allowed |= colours_at(pred, tests, i)
    # `|s| s.color() == X`: the comparison result is returned directly
    for i, t in pred.calls():
        m = re.search(r"sndbuf::Color as core::cmp::PartialEq>::(eq|ne)$", callee(t))
        if m and t["dest"] == [0]:
            col = promoted_colour(prog, pred, t["args"][1]) or promoted_colour(prog, pred, t["args"][0])
            if col:
                allowed |= ({col} if m.group(1) == "eq" else set(COLOURS) - {col})
    if not sites and not allowed:
        return set(COLOURS)
    return allowed


def filtered_colours(prog, clo):
    """for a closure handed to for_each/map over `iter.filter(pred)`: the colours pred lets through (else all)"""
    parent_name = clo.short.rsplit("::{closure", 1)[0]
    for parent in prog.by_short.get(parent_name, []):
        for i, t in parent.calls():
            if clo.id not in t["f"].get("fns", []) or not t["args"]:
                continue
            # the receiver: result of Iterator::filter(_, pred)
            for og in local_origins(parent, t["args"][0]):
                if og[0] == "call" and re.search(r"Iterator::filter$", callee(og[2])):
                    for k in og[2]["f"].get("fns", []):
                        pred = prog.bodies.get(k)
                        if pred is not None:
                            return true_colours(prog, pred)
    return set(COLOURS)


def run(ctx):
    prog = ctx.prog
    ctx.rule("R1", "colour code: Color::prefix and State::color are inverse 2-bit tables in bits 62..63 and offsets are masked with u64::MAX >> 2")
    ctx.rule("R2", "who writes which colour: Pending only by extend_to, Flighting only by pick, Recved only by ack_rcvd, Lost only by "
                   "may_loss / may_lost_from / resend_flighting (a non-constant colour written is one read from the map)")
    ctx.rule("R3", "acknowledged stays acknowledged: no set_color(Lost) can run on a state whose colour may be Recved")
    ctx.rule("R4", "pick offers only never-sent or lost bytes: the selecting closure returns true only for Pending (flow limit != 0) or Lost, "
                   "the picked state becomes Flighting, and `fresh` is `colour == Pending`")
    ctx.rule("R5", "release: shift pops only Recved entries; SendBuf::on_data_acked moves `offset` to shift()'s result and drops exactly "
                   "(result - offset) bytes; no other function removes bytes from `data`")
    ctx.rule("R7", "a loss report is applied up to its end: in may_loss / may_lost_from the walk over map entries below `end` leaves the "
                   "loop only after handing the rest of the range to may_lost_from (an acknowledged entry inside the range is skipped, "
                   "not a reason to stop)")
    ctx.rule("R8", "an acknowledgement treats every unacknowledged colour alike: the colour tests of ack_rcvd compare with Recved (and with "
                   "Pending in its debug assertions) only — whether the rest of a partly acknowledged segment is split off must not "
                   "depend on that segment being Flighting rather than Lost")
    ctx.rule("R9", "indices die with a drain: after `self.0.drain(..)` removed map entries, no index computed before it is used again "
                   "(no same_before / same_after / merge_after call is reachable from a drain in the same body)")
    ctx.rule("R6", "write keeps the bytes it announces: extend_to and push_back run together; is_all_rcvd is `data.is_empty()`")
    names = variant_names(prog, SB + "::Color") or {}
    # ---------------------------------------------------------------- R1
    pf = ctx.anchor("R1", SB + "::Color::prefix")
    codes = {}
    if pf:
        tb = arm_table(prog, pf, SB + "::Color") or {}
        for col, arm in tb.items():
            for blk in sorted(pf.reachable_from(arm["target"])):
                for s in pf.stmts(blk):
                    if s[0] == "=" and s[1] == [0]:
                        l = lin(pf, ["c", [0]]) if False else None
                        rv = s[2]
                        val = None
                        if rv[0] == "use" and const_int(rv[1]) is not None:
                            val = const_int(rv[1])
                        elif rv[0] == "bin" and rv[1] == "Shl" and const_int(rv[2]) is not None and const_int(rv[3]) is not None:
                            val = const_int(rv[2]) << const_int(rv[3])
                        if val is not None and col not in codes and blk in arm["blocks"]:
                            codes[col] = val
        ctx.ob("R1", "%s|four distinct codes in bits 62..63" % pf.short,
               len(codes) == 4 and len(set(codes.values())) == 4 and all(v % (1 << 62) == 0 and v >> 62 < 4 for v in codes.values()), pf.where(),
               "extracted {colour: prefix} = %s" % {k: hex(v) for k, v in sorted(codes.items())})
    cf = ctx.anchor("R1", SB + "::State::color")
    if cf:
        dec = {}
        shift_ok = False
        for sbk in cf.live_blocks():
            t = cf.term(sbk)
            if t["t"] == "switch":
                pl = op_place(t["on"])
                if pl and len(pl) == 1:
                    for (bb, jj, rv) in cf.defs_of(pl[0]):
                        if jj != "term" and rv[0] == "bin" and rv[1] == "Shr" and const_int(rv[3]) == 62:
                            shift_ok = True
                            for v, tgt in t["cases"]:
                                for (i, j, rv2, line) in agg_sites(cf, r"sndbuf::Color$"):
                                    if i == tgt:
                                        dec[int(v)] = rv2[1]["variant"]
        inverse = shift_ok and len(dec) == 4 and all(codes.get(c) == (v << 62) for v, c in dec.items())
        ctx.ob("R1", "%s|decodes what prefix encodes" % cf.short, inverse, cf.where(),
               "decode table (value >> 62 -> colour) = %s; inverse of prefix(): %s — a mismatch makes ranges change state by "
               "themselves (acknowledged bytes resent forever, or unsent bytes treated as acknowledged and dropped)" % (dec, inverse))
    sfx = prog.const_value(SB + "::State::SUFFIX")
    ctx.ob("R1", "State::SUFFIX == u64::MAX >> 2", sfx == (1 << 62) - 1, "qrecovery/src/send/sndbuf.rs", "SUFFIX evaluates to %s" % (hex(sfx) if isinstance(sfx, int) else sfx))
    # ---------------------------------------------------------------- R2 / R3
    OWN = {"Pending": {"extend_to"}, "Flighting": {"pick"}, "Recved": {"ack_rcvd"}, "Lost": {"may_loss", "may_lost_from", "resend_flighting"}}
    bm = [b for b in prog.bodies.values() if b.short.startswith(SB + "::BufMap::") and b.kind not in ("const", "promoted")]
    ctx.floor("R2", "BufMap bodies (methods and their closures)", len(bm), 12)
    nsites = 0
    for b in bm:
        meth = b.short[len(SB + "::BufMap::"):].split("::")[0]
        tests = None
        for i, t in b.calls():
            nm = callee(t)
            carg = None
            if nm.endswith("sndbuf::State::set_color") and len(t["args"]) == 2:
                carg = t["args"][1]
            elif nm.endswith("sndbuf::State::encode") and len(t["args"]) == 2:
                carg = t["args"][1]
            if carg is None:
                continue
            nsites += 1
            ctx.touch(b)
            col = const_colour(b, carg)
            if col is not None:
                ok = meth in OWN.get(col, set())
                ctx.ob("R2", "%s|writes %s (%s)" % (b.short, col, nm.split("::")[-1]), ok, b.where(t["line"]),
                       "constant colour %s written by BufMap::%s; owners of that colour: %s" % (col, meth, sorted(OWN.get(col, []))))
            else:
                # a variable colour must have been read from the map (State::color / decode) — never invented
                src = False
                for pl in deep_places(b, carg, 5):
                    for og in b.trace_local(pl[0]):
                        if og[0] == "call" and re.search(r"sndbuf::State::(color|decode)$", callee(og[2])):
                            src = True
                        if og[0] == "arg":
                            src = True   # closure capture / parameter carrying a colour read by the caller
                    if any(isinstance(e, str) and e.startswith(".") for e in pl[1:]):
                        src = True       # tuple / capture field carrying the decoded state
                # initial `pre_color = Color::Recved` style defaults are constants merged with map reads
                ctx.ob("R2", "%s|variable colour at %s comes from the map" % (b.short, nm.split("::")[-1]), src, b.where(t["line"]),
                       "the colour written is a value read from the map (State::color/decode) or handed in: %s" % src)
            if nm.endswith("sndbuf::State::set_color") and col == "Lost":
                if tests is None:
                    tests = colour_tests(prog, b)
                subj = None
                for q in deep_places(b, t["args"][0], 3):
                    if b.local_name(q[0]):
                        subj = ("state", q[0])
                        break
                may = colours_at(b, tests, i, subj)
                if b.kind == "closure":
                    may &= filtered_colours(prog, b)
                ctx.ob("R3", "%s|set_color(Lost) never on a Recved state" % b.short, "Recved" not in may,
                       b.where(t["line"]),
                       "colours the state may have here, from the dominating colour tests on it: %s — recolouring an acknowledged range "
                       "Lost resends bytes the peer already has and keeps the stream from ever completing (Pending is excluded by the "
                       "callers' contract only: loss reports name ranges that were sent)" % sorted(may))
    ctx.floor("R2", "colour write sites (set_color / encode)", nsites, 12)
    # ---------------------------------------------------------------- R4
    pk = [b for b in prog.bodies.values() if b.short.startswith(SB + "::BufMap::pick::{closure")]
    ctx.floor("R4", "closures of BufMap::pick", len(pk), 4)
    sel = [b for b in pk if b.local_ty(0).strip() == "bool"]
    ctx.floor("R4", "selecting (bool) closure of pick", len(sel), 1)
    for b in sel[:1]:
        ctx.touch(b)
        tests = colour_tests(prog, b)
        trues = [i for (i, j, p, rv, line) in b.assigns() if p == [0] and rv[0] == "use" and const_int(rv[1]) == 1]
        ctx.floor("R4", "`return true` sites of the selecting closure", len(trues), 2)
        allowed = set()
        for i in trues:
            allowed |= colours_at(b, tests, i)
        ctx.ob("R4", "%s|selects only Pending or Lost" % b.short, bool(trues) and allowed <= {"Pending", "Lost"} and allowed == {"Pending", "Lost"}, b.where(),
               "colours for which the closure can return true: %s — Flighting bytes must wait for their ack/loss verdict, Recved bytes are "
               "never resent" % sorted(allowed))
        # the Pending selection additionally requires flow_limit != 0
        pend_true = [i for i in trues if colours_at(b, tests, i) == {"Pending"}]
        fl_ok = False
        for i in pend_true:
            for (sw, op, x, y) in guard_chain(b, i):
                if op in ("Ne", "Gt") and (const_int(x) == 0 or const_int(y) == 0):
                    fl_ok = True
        ctx.ob("R4", "%s|Pending selected only when flow_limit != 0" % b.short, fl_ok, b.where(),
               "a `!= 0` guard decides the Pending selection: %s — new bytes with no connection credit would be offered (and charged) as zero-length picks" % fl_ok)
    fl = 0
    for b in pk:
        for i, t in b.calls():
            if callee(t).endswith("sndbuf::State::set_color") and const_colour(b, t["args"][1]) == "Flighting":
                fl += 1
    ctx.ob("R4", "BufMap::pick|the picked state becomes Flighting", fl >= 1, "qrecovery/src/send/sndbuf.rs", "set_color(Flighting) sites in pick's closures: %d" % fl)
    fresh = False
    for b in pk:
        for i, t in b.calls():
            if re.search(r"sndbuf::Color as core::cmp::PartialEq>::eq$", callee(t)):
                if (promoted_colour(prog, b, t["args"][1]) or promoted_colour(prog, b, t["args"][0])) == "Pending" and len(t["dest"]) == 1:
                    # the comparison result flows into the returned tuple
                    for (ii, jj, p, rv, line) in b.assigns():
                        if rv[0] == "agg" and rv[1]["k"] == "tuple" and any(copy_root_local(b, o) == t["dest"][0] for o in rv[2]):
                            fresh = True
    ctx.ob("R4", "BufMap::pick|fresh == (colour == Pending)", fresh, "qrecovery/src/send/sndbuf.rs",
           "the bool returned with the range is the result of `colour == Pending`: %s — flow-control credit is consumed exactly for fresh picks" % fresh)
    # ---------------------------------------------------------------- R5
    sh = ctx.anchor("R5", SB + "::BufMap::shift")
    if sh:
        tests = colour_tests(prog, sh)
        pops = call_blocks(sh, r"VecDeque(<.*>|::<.*>)?::pop_front$")
        ctx.floor("R5", "pop_front in shift", len(pops), 1)
        for i in pops:
            may = colours_at(sh, tests, i)
            ctx.ob("R5", "%s|pops only Recved entries" % sh.short, may == {"Recved"}, sh.where(), "colours of the popped front entry: %s" % sorted(may))
    od = ctx.anchor("R5", SB + "::SendBuf::on_data_acked")
    if od:
        sc = [(i, t) for i, t in od.calls() if callee(t).endswith("BufMap::shift")]
        ak = call_blocks(od, r"BufMap::ack_rcvd$")
        ws = field_writes(prog, "SendBuf", "offset", [od])
        ok_w = bool(sc) and bool(ws) and all(rv[0] == "use" and copy_root_local(od, rv[1]) == copy_root_local(od, ["c", [sc[0][1]["dest"][0]]])
                                             for (b, i, j, p, rv, line) in ws)
        ctx.ob("R5", "%s|offset := shift()" % od.short, ok_w and bool(ak) and all(od.dominates(ak[0], i) for (i, t) in sc), od.where(),
               "ack_rcvd then shift: %s; every write of SendBuf.offset stores shift()'s result: %s" % (bool(ak), ok_w))
        # the number of bytes dropped is (shift result - old offset)
        # the number of bytes to drop: some local defined as (shift() - offset) that the dropping loop counts down
        ok_d = False
        for (i_, j_, p_, rv_, line_) in od.assigns():
            rs = set()
            for o in rvalue_operands(rv_):
                rs |= value_roles(od, o)
            if any(r.startswith("diff(") and "field:SendBuf.offset" in r and "BufMap::shift" in r for r in rs):
                ok_d = True
        rm = [i for i, t in od.calls() if re.search(r"VecDeque(<.*>|::<.*>)?::pop_front$|Bytes::slice$", callee(t))]
        ctx.ob("R5", "%s|drops exactly shift() - offset bytes" % od.short, ok_d and bool(rm), od.where(),
               "drain_len is shift() - offset: %s; byte-dropping operations at %s" % (ok_d, rm))
    # nothing else removes bytes from SendBuf.data
    removers = []
    for b in prog.bodies.values():
        if b.crate != "qrecovery" or b.kind in ("const", "promoted"):
            continue
        for i, t in b.calls():
            if re.search(r"VecDeque(<.*>|::<.*>)?::(pop_front|pop_back|clear|drain|truncate|remove|split_off|retain)$", callee(t)) and t["args"]:
                if any(place_has_field(pl, "SendBuf", "data") for pl in deep_places(b, t["args"][0], 3)):
                    removers.append(b.short)
    removers = sorted(set(removers))
    ctx.ob("R5", "SendBuf.data|bytes are removed only by on_data_acked", removers == [SB + "::SendBuf::on_data_acked"], "qrecovery/src/send/sndbuf.rs",
           "functions removing elements of SendBuf.data: %s" % removers)
    # ---------------------------------------------------------------- R7
    for name in (SB + "::BufMap::may_lost_from", SB + "::BufMap::may_loss"):
        b = ctx.anchor("R7", name)
        if not b:
            continue
        heads = sorted(set(v for u in b.live_blocks() for v in b.succ(u) if b.dominates(v, u)))
        rec = set(call_blocks(b, r"BufMap::may_lost_from$"))
        # the `Ordering::Less` arm: switch on the discriminant of a cmp() result, case -1 (255 as u8 / i8 -1)
        less = []
        for sbk in b.live_blocks():
            t = b.term(sbk)
            if t["t"] != "switch":
                continue
            pl = op_place(t["on"])
            if pl is None or len(pl) != 1:
                continue
            for (bb, jj, rv) in b.defs_of(pl[0]):
                if jj != "term" and rv[0] == "disc" and "cmp::Ordering" in b.local_ty(rv[1][0]):
                    for v, tgt in t["cases"]:
                        if int(v) in (-1, 255, 18446744073709551615, 4294967295):
                            less.append((sbk, tgt))
        ctx.floor("R7", "`offset < end` arms in %s" % name.split("::")[-1], len(less), 1)
        for (sbk, tgt) in less:
            hs = [h for h in heads if h in b.reachable_from(tgt)]
            outside = set(x for x in b.live_blocks() if not any(h in b.reachable_from(x) for h in hs)) if hs else set()
            r = b.reachable_from(tgt, avoid=rec | set(hs))
            rets = set(b.return_blocks())
            # a return reachable from the arm without passing the recursive call or the loop head = the walk stopped short
            # (blocks of a failing debug_assert! never return and do not count)
            leak = sorted(r & rets)
            ctx.ob("R7", "%s|an entry below `end` never ends the walk without may_lost_from taking over" % b.short, bool(hs) and not leak, b.where(),
                   "from the `entry.offset < end` arm (bb%d) the function can return without going round the loop again or passing may_lost_from (return blocks reached: %s) — the part of "
                   "the lost range behind that entry keeps its Flighting colour: reported lost, never offered again, and the stream "
                   "can never complete" % (tgt, leak[:6] or "none"))
    # ---------------------------------------------------------------- R9
    n9 = 0
    for b in bm:
        drains = call_blocks(b, r"VecDeque(<.*>|::<.*>)?::drain$")
        if not drains:
            continue
        n9 += 1
        ctx.touch(b)
        idx_users = [(i, t) for i, t in b.calls() if re.search(r"BufMap::(same_before|same_after|merge_after)$", callee(t))]
        late = [(i, callee(t).split("::")[-1]) for (i, t) in idx_users if any(i in b.reachable_from(b.term(d)["to"]) for d in drains if b.term(d).get("to") is not None)]
        ctx.ob("R9", "%s|no index-based helper after drain" % b.short, not late, b.where(),
               "drain at %s; index-taking helpers reachable after it: %s — after entries have been drained every index at or beyond the "
               "drained range names a different entry: a merge done with a stale index deletes the entry of a neighbouring, "
               "unacknowledged range, which then counts as acknowledged" % (drains, late or "none"))
    ctx.floor("R9", "BufMap bodies that drain entries", n9, 4)
    # ---------------------------------------------------------------- R8
    ar = ctx.anchor("R8", SB + "::BufMap::ack_rcvd")
    if ar:
        cols = {}
        for i, t in ar.calls():
            m = re.search(r"sndbuf::Color as core::cmp::PartialEq>::(eq|ne)$|cmp::PartialEq::(eq|ne)$", callee(t))
            if m and len(t["args"]) == 2:
                col = promoted_colour(prog, ar, t["args"][1]) or promoted_colour(prog, ar, t["args"][0])
                if col:
                    cols.setdefault(col, []).append(t["line"])
        for (i, j, p, rv, line) in ar.assigns():
            if rv[0] == "disc" and "sndbuf::Color" in ar.local_ty(rv[1][0]):
                cols.setdefault("<match on colour>", []).append(line)
        ctx.floor("R8", "colour comparisons in ack_rcvd", sum(len(v) for v in cols.values()), 4)
        bad = {c: l for c, l in cols.items() if c not in ("Recved", "Pending")}
        ctx.ob("R8", "%s|colour tests distinguish only Recved" % ar.short, not bad, ar.where(),
               "colours ack_rcvd compares with: %s; others than Recved/Pending: %s — if the split at the end of the acknowledged range is "
               "made only for a Flighting segment, the unacknowledged tail of a Lost segment is recoloured Recved together with the "
               "acknowledged part: bytes the peer never confirmed are dropped from the buffer and never resent"
               % ({c: len(l) for c, l in sorted(cols.items())}, sorted(bad) or "none"))
    # ---------------------------------------------------------------- R6
    wr = ctx.anchor("R6", SB + "::SendBuf::write")
    if wr:
        ex = call_blocks(wr, r"BufMap::extend_to$")
        pb = call_blocks(wr, r"VecDeque(<.*>|::<.*>)?::push_back$")
        ok = len(ex) == 1 and len(pb) == 1 and (wr.dominates(ex[0], pb[0]) or wr.dominates(pb[0], ex[0])) and \
            not (wr.reachable_from(ex[0], avoid={pb[0]}) & set(wr.return_blocks())) if (ex and pb and wr.dominates(ex[0], pb[0])) else \
            (len(ex) == 1 and len(pb) == 1 and wr.dominates(pb[0], ex[0]) and not (wr.reachable_from(pb[0], avoid={ex[0]}) & set(wr.return_blocks())))
        ctx.ob("R6", "%s|extend_to and push_back always together" % wr.short, bool(ok), wr.where(),
               "extend_to at %s, push_back at %s; neither can run without the other: %s — bytes announced to the map but not stored "
               "(or stored but not announced) can never be sent" % (ex, pb, bool(ok)))
    ia = ctx.anchor("R6", SB + "::SendBuf::is_all_rcvd")
    if ia:
        ok = any(re.search(r"VecDeque(<.*>|::<.*>)?::is_empty$", callee(t)) and t["dest"] == [0] and
                 any(place_has_field(pl, "SendBuf", "data") for pl in deep_places(ia, t["args"][0], 3)) for i, t in ia.calls())
        ctx.ob("R6", "%s|is `data.is_empty()`" % ia.short, ok, ia.where(), "returns VecDeque::is_empty(&self.data): %s" % ok)
    ctx.assume("ack / loss ranges handed to BufMap lie within previously picked ranges (callers: C01-R1 wiring, C10 journals)")
    ctx.assume("VecDeque and Bytes operations behave per their documentation")


def copy_root_local(body, op, depth=8):
    p = op_place(op)
    if p is None or len(p) != 1:
        return None
    l = p[0]
    for _ in range(depth):
        ds = body.defs_of(l)
        if len(ds) != 1 or ds[0][1] == "term":
            return l
        rv = ds[0][2]
        q = op_place(rv[1]) if rv[0] == "use" else (op_place(rv[2]) if rv[0] == "cast" else None)
        if q is None or len(q) != 1:
            return l
        l = q[0]
    return l
