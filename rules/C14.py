"""C14 — Connection IDs are issued, used, retired and routed consistently (structural clauses)."""
from rules.common import *

TECHNIQUE = ("static analysis: pairing (retire => unroute) by must-reach on MIR, who-may-write of the router table and "
             "the local CID deque, exactly-once call counting on the retirement path, error-construction presence")
LEVEL_TEXT = ("Static analysis of the type-checked MIR of /repo: every retirement of a local connection ID (slot taken, "
              "deque drained, manager dropped, router entry dropped) reaches the call that removes it from the routing "
              "table; the routing table is mutated only by the router's own insert/remove and the registry's "
              "occupied-means-retry generator; a replacement ID is issued exactly once per *taken* slot and never for an "
              "already-retired one, with consecutive numbering (seq = largest, one push); the RFC's checks (unknown "
              "sequence, peer exceeding our limit, limit < 2) construct their errors on conditional paths. Necessary "
              "structural conditions on all paths.")
NOT_DECIDED = ["the reassignment logic of retire_prior_to / arrange_idle_cid over histories",
               "the number of outstanding IDs as a running count (only issue/retire pairing is decided)",
               "bounded work for hostile sequence numbers (C04)"]

LC = "qbase::cid::local_cid::LocalCids"
RC = "qbase::cid::remote_cid::RemoteCids"
QR = "qinterface::component::route"


def must_reach(body, start_blocks, target_blocks):
    """every path from each start block to a return passes through a target block"""
    r = body.reachable_from(list(start_blocks), avoid=set(target_blocks))
    return not (r & set(body.return_blocks()))


def run(ctx):
    prog = ctx.prog
    ctx.rule("R1", "retire => unroute: taking a local CID out of the deque (take / drain / Drop) reaches RetireCid::retire_cid; "
                   "QuicRouterEntry removes itself on Drop")
    ctx.rule("R2", "router table ownership: QuicRouter.table is mutated only by QuicRouter::{insert,remove}, "
                   "QuicRouterEntry::remove and the unique-CID generator (Entry API: occupied => retry)")
    ctx.rule("R3", "one new ID per retirement, consecutive numbering: issue_new_cid is reached exactly once on the taken-Some "
                   "path and never on the already-retired path; it numbers with cid_deque.largest() and pushes once")
    ctx.rule("R4", "checks present: unknown sequence -> error, peer exceeding active_connection_id_limit -> ConnectionIdLimit, "
                   "limit < 2 -> TransportParameter")
    ctx.rule("R6", "abandoning a path retires every remote ID its cell still holds: CidCell::retire pops allocated_cids in a loop "
                   "(until None) and sends one RETIRE_CONNECTION_ID per popped sequence number")
    ctx.rule("R7", "retire_prior_to announces what it skips: in RemoteCids::retire_prior_to the window offset is read for the "
                   "RETIRE_CONNECTION_ID range before reset_offset moves it (no offset() read feeding send_frame is reachable from reset_offset)")
    ctx.rule("R5", "one ID per path at a time: BorrowedCid::drop renews; renew retires the previous ID")

    # ---------------------------------------------------------------- R1 / R3 on recv_retire_cid_frame
    b = ctx.anchor("R1", LC + "::recv_retire_cid_frame")
    if b:
        takes = call_blocks(b, r"Option::take$")
        # `slot.get_mut(seq).and_then(|v| v.take())`: the take sits in a closure, its outcome is the adaptor's result
        for i_, t_ in b.calls():
            if re.search(r"option::Option(<.*>|::<.*>)?::(and_then|map|take_if)$", callee(t_)):
                for k_ in t_["f"].get("fns", []):
                    kb = prog.bodies.get(k_)
                    if kb is not None and call_blocks(kb, r"Option::take$") and i_ not in takes:
                        takes.append(i_)
        ctx.floor("R1", "slot take sites in recv_retire_cid_frame", len(takes), 1)
        for tk in takes:
            oe = outcome_edges(b, tk)
            ret = call_blocks(b, r"RetireCid::retire_cid$")
            iss = call_blocks(b, r"LocalCids::issue_new_cid$")
            ok1 = bool(oe) and bool(ret) and must_reach(b, oe["ok"], ret)
            ctx.ob("R1", "%s|taken id is removed from routing" % b.short, ok1, b.where(),
                   "every path from the Some edge of take() to return calls retire_cid: %s (a retired ID must stop routing packets)" % ok1)
            if oe:
                none_reach = b.reachable_from(list(oe["err"]), avoid={tk})
                ok2 = len(iss) == 1 and must_reach(b, oe["ok"], iss) and iss[0] not in none_reach
                ctx.ob("R3", "%s|exactly one replacement, only for a taken slot" % b.short, ok2, b.where(),
                       "issue_new_cid call sites: %d; on every Some path: %s; reachable when the slot was already retired "
                       "(None edge): %s — replaying RETIRE_CONNECTION_ID for a retired-but-tracked sequence must be a no-op"
                       % (len(iss), bool(iss) and must_reach(b, oe["ok"], iss), bool(iss) and iss[0] in none_reach))
        # unknown sequence check
        eks = [(i, rv[1]["variant"]) for (i, j, rv, line) in agg_sites(b, r"error::ErrorKind$")]
        gm = call_blocks(b, r"IndexDeque::get_mut$")
        ok = bool(eks) and bool(gm) and all(not b.dominates(i, gm[0]) for i, _ in eks) and \
            all(not all(b.dominates(i, r) for r in b.return_blocks()) for i, _ in eks)
        ctx.ob("R4", "%s|never-issued sequence rejected" % b.short, ok, b.where(),
               "error kinds constructed %s on a conditional path before the slot lookup: %s (RFC 9000 §19.16 says "
               "PROTOCOL_VIOLATION; the repository uses ConnectionIdLimit — presence of the rejection is what is checked)"
               % ([k for _, k in eks], ok))
    b = ctx.anchor("R1", LC + "::clear")
    if b:
        ret = call_blocks(b, r"RetireCid::retire_cid$")
        dr = call_blocks(b, r"IndexDeque::drain_to$")
        ok = bool(ret) and bool(dr)
        # drains up to largest()
        lg = call_blocks(b, r"IndexDeque::largest$")
        ctx.ob("R1", "%s|drains every id and unroutes it" % b.short, ok and bool(lg), b.where(),
               "drain_to(largest()) with retire_cid for each drained id: %s" % (ok and bool(lg)))
    b = ctx.anchor("R1", "<qbase::cid::local_cid::LocalCids as core::ops::drop::Drop>::drop")
    if b:
        ctx.ob("R1", "%s|Drop clears" % b.short, bool(calls(b, r"LocalCids::clear$")), b.where(),
               "dropping the manager (connection gone) retires every remaining id")
    b = ctx.anchor("R1", "<%s::QuicRouterEntry as core::ops::drop::Drop>::drop" % QR)
    if b:
        ctx.ob("R1", "%s|Drop removes the route" % b.short, bool(calls(b, r"QuicRouterEntry::remove$")), b.where(),
               "a dropped router entry removes its signpost")
    b = ctx.anchor("R1", QR + "::QuicRouterEntry::remove")
    if b:
        cl = [prog.bodies.get(x) for i, t in b.calls() if callee(t).endswith("DashMap::remove_if") for x in t["f"].get("fns", [])]
        ok = any(c is not None and calls(c, r"Weak::ptr_eq$") for c in cl)
        ctx.ob("R1", "%s|removes only its own queue" % b.short, ok, b.where(),
               "remove_if guarded by Weak::ptr_eq (an entry re-registered for another connection is left alone): %s" % ok)
    b = ctx.anchor("R1", "<%s::QuicRouterRegistry as qbase::cid::RetireCid>::retire_cid" % QR) or None
    if b:
        ctx.ob("R1", "%s|retire_cid removes the signpost" % b.short, bool(calls(b, r"QuicRouter::remove$")), b.where(), "")

    # ---------------------------------------------------------------- R2
    muts = []
    for (cb, i, t) in prog.call_sites(r"dashmap::DashMap::(insert|remove|remove_if|remove_if_mut|clear|retain|entry|alter|alter_all|get_mut|iter_mut|try_entry)$|dashmap::mapref::entry::(Entry|VacantEntry|OccupiedEntry)::(insert|insert_entry|or_insert|or_insert_with|remove|remove_entry|replace_entry)$"):
        hit = False
        for o in local_origins(cb, t["args"][0]):
            if o[0] == "place" and place_has_field(o[1], "QuicRouter", "table"):
                hit = True
        if hit:
            muts.append((cb, i, t))
    ctx.floor("R2", "router table mutation sites", len(muts), 4)
    allowed = {QR + "::QuicRouter::insert": "insert", QR + "::QuicRouter::remove": "remove",
               QR + "::QuicRouterEntry::remove": "remove_if",
               "<%s::QuicRouterRegistry as qbase::cid::GenUniqueCid>::gen_unique_cid::{closure#1}" % QR: "entry"}
    for (cb, i, t) in muts:
        ctx.touch(cb)
        m = callee(t).split("::")[-1]
        ok = allowed.get(cb.short) == m
        ctx.ob("R2", "%s|table.%s" % (cb.short, m), ok, cb.where(t["line"]),
               "router table mutated by `%s` in %s (allowed writers: %s)" % (m, cb.short, sorted(set(allowed.values()))))
    g = prog.find(r"QuicRouterRegistry as qbase::cid::GenUniqueCid>::gen_unique_cid::\{closure#1\}$")
    for c in g:
        ctx.touch(c)
        # occupied => return false (retry) before inserting
        ins = call_blocks(c, r"entry::Entry::insert$")
        sw = [sb for sb in c.live_blocks() if c.term(sb)["t"] == "switch"]
        ok = bool(ins) and bool(sw) and all(not c.dominates(i, r) for i in ins for r in c.return_blocks() if True) or False
        cond = bool(ins) and not all(c.dominates(ins[0], r) for r in c.return_blocks())
        ctx.ob("R2", "%s|occupied => retry" % c.short, cond, c.where(),
               "Entry::insert is conditional on the entry not being Occupied (a live ID of another connection is never overwritten): %s" % cond)
    ctx.floor("R2", "unique-cid generator closures", len(g), 1)

    # ---------------------------------------------------------------- R3 issue_new_cid
    b = ctx.anchor("R3", LC + "::issue_new_cid")
    if b:
        pushes = call_blocks(b, r"IndexDeque::push_back$")
        gens = call_blocks(b, r"GenUniqueCid::gen_unique_cid$")
        seq_ok = False
        for i, t in b.calls():
            if callee(t).endswith("NewConnectionIdFrame::new") and len(t["args"]) >= 2:
                og = local_origins(b, t["args"][1])
                # seq <- VarInt::from_u64(largest()).unwrap()
                def from_largest(o, depth=0):
                    if depth > 4 or o[0] != "call":
                        return False
                    n = callee(o[2])
                    if n.endswith("IndexDeque::largest"):
                        return True
                    return any(from_largest(x, depth + 1) for a in o[2]["args"] for x in local_origins(b, a))
                seq_ok = any(from_largest(o) for o in og)
        ctx.ob("R3", "%s|seq = largest, one generate, one push" % b.short, len(pushes) == 1 and len(gens) == 1 and seq_ok, b.where(),
               "push_back sites %d, gen_unique_cid sites %d, sequence number derived from cid_deque.largest(): %s" % (len(pushes), len(gens), seq_ok))
    # who pushes / writes the local deque
    w = []
    for (cb, i, t) in prog.call_sites(r"IndexDeque::(push_back|insert|advance|drain_to|reset_offset|resize|get_mut)$"):
        for o in local_origins(cb, t["args"][0]):
            if o[0] == "place" and place_has_field(o[1], "LocalCids", "cid_deque"):
                w.append((cb.short, callee(t).split("::")[-1]))
    expect = {(LC + "::issue_new_cid", "push_back"), (LC + "::recv_retire_cid_frame", "get_mut"),
              (LC + "::recv_retire_cid_frame", "advance"), (LC + "::clear", "drain_to")}
    extra = sorted(set(w) - expect - {(LC + "::new", "push_back")})
    ctx.ob("R3", "local cid_deque writers", not extra and expect <= set(w), "qbase/src/cid/local_cid.rs",
           "writers of LocalCids.cid_deque: %s; unexpected: %s" % (sorted(set(w)), extra))

    # ---------------------------------------------------------------- R4
    b = ctx.anchor("R4", RC + "::recv_new_cid_frame")
    if b:
        eks = [(i, rv[1]["variant"]) for (i, j, rv, line) in agg_sites(b, r"error::ErrorKind$")]
        ins = call_blocks(b, r"IndexDeque::insert$")
        ok = any(k == "ConnectionIdLimit" for _, k in eks) and bool(ins) and all(i not in b.reachable_from(e) for e, _ in eks for i in ins)
        # the check precedes the insertion
        cmpb = None
        for sb in b.live_blocks():
            t = b.term(sb)
            if t["t"] == "switch" and ins and b.dominates(sb, ins[0]) and eks and any(e in b.reachable_from(sb) for e, _ in eks):
                cmpb = sb
        ctx.ob("R4", "%s|issue beyond our limit -> ConnectionIdLimit, before storing" % b.short, ok and cmpb is not None, b.where(),
               "error kinds %s; the limit test (bb%s) dominates the insertion: %s" % ([k for _, k in eks], cmpb, cmpb is not None))
    b = ctx.anchor("R4", RC + "::recv_new_cid_frame")
    if b:
        # `if seq < self.cid_deque.offset() { return Ok(None) }` : only IDs already retired are ignored
        found = None
        for sb in b.live_blocks():
            t = b.term(sb)
            if t["t"] != "switch":
                continue
            pl = op_place(t["on"])
            if not pl or len(pl) != 1:
                continue
            for (bb, jj, rv) in b.defs_of(pl[0]):
                if jj != "term" and rv[0] == "bin" and rv[1] in ("Lt", "Le", "Gt", "Ge"):
                    off = [any(og[0] == "call" and callee(og[2]).endswith("IndexDeque::offset") for og in local_origins(b, o)) for o in (rv[2], rv[3])]
                    if any(off):
                        op = rv[1] if off[1] else {"Lt": "Gt", "Le": "Ge", "Gt": "Lt", "Ge": "Le"}[rv[1]]
                        tr, fa = switch_edges_on_local(b, sb)
                        ins = call_blocks(b, r"IndexDeque::insert$")
                        skips_on_true = bool(ins) and all(x not in b.reachable_from(list(tr), avoid={sb}) for x in ins)
                        found = (op, skips_on_true)
        ok = found == ("Lt", True)
        ctx.ob("R4", "%s|only sequence numbers below the retired prefix are ignored" % b.short, ok, b.where(),
               "stale-frame test: ignore when seq %s offset (ignored on the true edge: %s) — `<=` would also drop the ID whose "
               "number equals retire_prior_to when frames are reordered, leaving a hole the path can never fill"
               % (found[0] if found else "?", found[1] if found else "?"))
    b = ctx.anchor("R4", LC + "::set_limit")
    if b:
        eks = [(i, rv[1]["variant"]) for (i, j, rv, line) in agg_sites(b, r"error::ErrorKind$")]
        two = False
        for (i, j, p, rv, line) in b.assigns():
            if rv[0] == "bin" and rv[1] == "Lt" and const_int(rv[3]) == 2:
                two = True
        ctx.ob("R4", "%s|limit < 2 -> TransportParameter" % b.short, two and any(k == "TransportParameter" for _, k in eks), b.where(),
               "comparison `< 2`: %s; error kinds %s" % (two, [k for _, k in eks]))

    # ---------------------------------------------------------------- R5
    b = ctx.anchor("R5", "<qbase::cid::remote_cid::BorrowedCid as core::ops::drop::Drop>::drop")
    if b:
        ok = any(re.search(r"::(renew|retire)$", callee(t)) for i, t in b.calls())
        ctx.ob("R5", "%s|drop gives the id back" % b.short, ok, b.where(), "calls %s" % [callee(t) for i, t in b.calls()][:6])
    ctx.assume("IndexDeque::largest() is the next unused sequence number (value-level)")

    # ---------------------------------------------------------------- R6
    cr = ctx.anchor("R6", "qbase::cid::remote_cid::CidCell::retire")
    if cr:
        pops = [i for i, t in cr.calls() if re.search(r"VecDeque(<.*>|::<.*>)?::(pop_front|pop_back)$", callee(t)) and
                any("allocated_cids" in place_fields(pl) for pl in deep_places(cr, t["args"][0], 3))]
        drains = [i for i, t in cr.calls() if re.search(r"VecDeque(<.*>|::<.*>)?::drain$", callee(t))]
        sends = call_blocks(cr, r"SendFrame<.*>>::send_frame$|SendFrame::send_frame$")
        looped = [i for i in pops if i in cr.reachable_from(cr.term(i)["to"]) ] if pops else []
        # the loop is left only on None
        only_none = False
        for i in looped:
            oe = outcome_edges(cr, i)
            if oe and oe["err"] and oe["ok"]:
                back_ok = all(i in cr.reachable_from(x) for x in oe["ok"])
                exit_none = all(i not in cr.reachable_from(x) for x in oe["err"])
                per_item = bool(sends) and all(any(sb_ in cr.reachable_from(x, avoid={i}) for sb_ in sends) for x in oe["ok"])
                only_none = back_ok and exit_none and per_item
        ctx.ob("R6", "%s|every held ID is retired" % cr.short, bool(drains and sends) or only_none, cr.where(),
               "pop sites %s (inside a loop: %s), drain sites %s, send_frame sites %s; loop continues on Some and leaves on None with one "
               "frame per item: %s — retiring only the newest ID leaves an older one (still borrowed across a retire_prior_to switch) "
               "without its RETIRE_CONNECTION_ID" % (pops, looped, drains, sends, only_none))

    # ---------------------------------------------------------------- R7
    rp = ctx.anchor("R7", RC + "::retire_prior_to")
    if rp:
        resets = call_blocks(rp, r"IndexDeque(<.*>|::<.*>)?::reset_offset$")
        sends = [(i, t) for i, t in rp.calls() if re.search(r"SendFrame<.*>>::send_frame$|SendFrame::send_frame$", callee(t))]
        ctx.floor("R7", "reset_offset calls in retire_prior_to", len(resets), 1)
        ctx.floor("R7", "send_frame calls in retire_prior_to", len(sends), 1)
        bad = []
        for (si_, st) in sends:
            offs = set()
            for a in st["args"]:
                for pl in deep_places(rp, a, 8):
                    for og in rp.trace_local(pl[0]):
                        if og[0] == "call" and re.search(r"IndexDeque(<.*>|::<.*>)?::offset$", callee(og[2])):
                            offs.add(og[1])
            for r_ in resets:
                nxt = rp.term(r_).get("to")
                if nxt is None:
                    continue
                after = rp.reachable_from(nxt)
                if any(o in after for o in offs) and si_ in after:
                    bad.append((r_, si_))
        ctx.ob("R7", "%s|the retired range is computed before the offset moves" % rp.short, not bad, rp.where(),
               "(reset_offset block, send_frame block) pairs where the range's lower end is read after the reset: %s — the range "
               "offset()..tomb_seq is then empty: ids skipped by retire_prior_to are dropped locally without their "
               "RETIRE_CONNECTION_ID, so the peer can never replace them" % (bad or "none"))
