"""A4 — nom error-class effect inference.

Every parser in the repository returns `Result<_, nom::Err<E>>`.  Handlers then collapse the three `nom::Err`
variants (Incomplete / Error / Failure) with arms such as `_ => unreachable!()`.  This module infers, per function and
closure, which variants an error value *may* carry (a may-analysis over a 3-element lattice), and reports every handler
arm that panics for a variant that can reach it.

  prim classes : a reviewed table of the nom primitives used here (streaming => Incomplete, complete => Error, ...)
  transformers : closures / functions taking a `nom::Err` parameter (map_err closures, From impls, handle_nom_error)
                 are summarised as  variant -> (panics | set of output variants)
  values       : forward dataflow over locals of type Result<_, nom::Err<_>> / nom::Err<_> with union as join
"""
import re

from rules.common import *

I, E, F = "Incomplete", "Error", "Failure"
VAR = {0: I, 1: E, 2: F}
ALL = frozenset([I, E, F])

# reviewed table of nom items (path regex -> classes they originate; None = transparent combinator)
PRIMS = [
    (r"^nom::(bits|bytes|number|character)::streaming::(take|be_\w+|le_\w+|u8|i8|bool)\b", {I}),
    (r"^nom::(bits|bytes|number|character)::streaming::", {I, E}),
    (r"^nom::(bits|bytes|number|character)::complete::", {E}),
    (r"^nom::(bits|bytes|number|character)::(take|be_\w+|le_\w+|u8)\b", {I, E}),   # mode-generic nom 8 entry points
    (r"^nom::combinator::(verify|eof|map_res|map_opt|fail|all_consuming|not|peek|recognize|consumed|cut|complete)\b", {E}),
    (r"^nom::combinator::(map|flat_map|opt|cond|value|into|success|rest|rest_len|iterator)\b", None),
    (r"^nom::multi::(length_data|length_value|length_count)\b", {I}),
    (r"^nom::multi::", None),
    (r"^nom::sequence::", None),
    (r"^nom::branch::", None),
    (r"^nom::bits::(bits|bytes)\b", None),
    (r"^nom::internal::", None),
    (r"^nom::error::", None),
    (r"^nom::traits::", None),
]
_PRIMS = [(re.compile(rx), c) for rx, c in PRIMS]


def is_nom_result_ty(ty):
    return ty.startswith("core::result::Result<") and "nom::internal::Err<" in ty


def is_nom_err_ty(ty):
    t = ty.lstrip("&").strip()
    return t.startswith("nom::internal::Err<")


class NomAnalysis:
    def __init__(self, prog):
        self.prog = prog
        self.out = {}        # body id -> set of variants the body's returned error may carry
        self.trans = {}      # body id -> transformer summary
        self.unknown = set()  # nom items without a table row (fail closed)
        self.handler_reports = []  # (body, variant, via) for panicking arms reached
        self._in_progress = set()

    # ---------------------------------------------------------------- primitives
    def prim(self, path):
        if not path.startswith("nom::"):
            return None, False
        p = re.sub(r"::\{closure#\d+\}", "", path)
        p = re.sub(r"::\{impl#\d+\}", "", p)
        for rx, c in _PRIMS:
            if rx.search(p):
                return (set(c) if c else set()), True
        self.unknown.add(p)
        return set(ALL), True

    def item_class(self, item_id):
        """classes originated by a mentioned item (nom primitive, or workspace parser fn/closure)"""
        b = self.prog.bodies.get(item_id)
        if b is not None:
            ret = b.local_ty(0)
            if is_nom_result_ty(ret):
                return self.body_out(b)
            return set()
        c, known = self.prim(item_id)
        return c or set()

    # ---------------------------------------------------------------- transformer summaries
    def transformer(self, b):
        """summary of a body with a nom::Err parameter: {'param': n, 'arms': {variant: 'panic' | set(out variants) | 'payload'}}"""
        if b.id in self.trans:
            return self.trans[b.id]
        params = [i for i in range(1, b.argc + 1) if is_nom_err_ty(b.local_ty(i))]
        if not params:
            self.trans[b.id] = None
            return None
        par = params[-1]
        summ = {"param": par, "arms": {}}
        self.trans[b.id] = summ
        # locals that are copies of the parameter
        aliases = {par}
        changed = True
        while changed:
            changed = False
            for (i, j, p, rv, line) in b.assigns():
                if len(p) == 1 and rv[0] == "use":
                    q = op_place(rv[1])
                    if q is not None and len(q) == 1 and q[0] in aliases and p[0] not in aliases:
                        aliases.add(p[0])
                        changed = True
        sw = None
        for sb in b._rpo():
            t = b.term(sb)
            if t["t"] != "switch":
                continue
            pl = op_place(t["on"])
            if pl is None or len(pl) != 1:
                continue
            for (bb, jj, rv) in b.defs_of(pl[0]):
                if jj != "term" and rv[0] == "disc" and rv[1][0] in aliases:
                    sw = sb
            if sw is not None:
                break
        rets = set(b.return_blocks())
        ret_is_nom = is_nom_err_ty(b.local_ty(0)) or is_nom_result_ty(b.local_ty(0))

        def const_walk(start):
            """blocks executed from `start`, resolving switches on locals that hold a known boolean constant
            (the `matches!(..)` / `assert!(matches!(..))` idiom: each arm stores true/false, a later switch tests it)"""
            env = {}
            seen = set()
            cur = start
            visited = set()
            for _ in range(64):
                if cur in seen:
                    break
                seen.add(cur)
                visited.add(cur)
                for s in b.stmts(cur):
                    if s[0] == "=" and len(s[1]) == 1:
                        rv = s[2]
                        if rv[0] == "use" and op_const(rv[1]) is not None and op_const(rv[1]).get("ty") == "bool" and "v" in op_const(rv[1]):
                            env[s[1][0]] = int(op_const(rv[1])["v"])
                        elif rv[0] == "use" and op_place(rv[1]) is not None and len(op_place(rv[1])) == 1 and op_place(rv[1])[0] in env:
                            env[s[1][0]] = env[op_place(rv[1])[0]]
                        elif rv[0] == "un" and rv[1] == "Not" and op_place(rv[2]) is not None and op_place(rv[2])[0] in env:
                            env[s[1][0]] = 1 - env[op_place(rv[2])[0]]
                        else:
                            env.pop(s[1][0], None)
                t = b.term(cur)
                if t["t"] == "goto":
                    cur = t["to"]
                    continue
                if t["t"] == "switch":
                    pl = op_place(t["on"])
                    if pl is not None and len(pl) == 1 and pl[0] in env:
                        val = env[pl[0]]
                        nxt = None
                        for cv, tgt in t["cases"]:
                            if int(cv) == val:
                                nxt = tgt
                        cur = nxt if nxt is not None else t["else"]
                        continue
                    return visited | b.reachable_from(cur)
                if t["t"] in ("call", "drop", "assert") and t.get("to") is not None:
                    # calls that do not define tracked booleans: continue linearly
                    if t["t"] == "call" and len(t["dest"]) == 1:
                        env.pop(t["dest"][0], None)
                    cur = t["to"]
                    continue
                return visited
            return visited | b.reachable_from(cur)

        def region_out(start_blocks, v):
            reg = set()
            for sb_ in start_blocks:
                reg |= const_walk(sb_)
            if not (reg & rets):
                return "panic"
            outs = set()
            passthru = False
            for x in reg:
                for s in b.stmts(x):
                    if s[0] == "=" and s[2][0] == "agg" and s[2][1]["k"] == "adt" and s[2][1]["adt"] == "nom::internal::Err":
                        outs.add(s[2][1]["variant"])
                tt = b.term(x)
                if tt["t"] == "call":
                    n = callee(tt)
                    if re.search(r"nom::internal::Err::(map|map_input|convert|to_owned|map_err)$", n):
                        passthru = True
                    # delegation to another transformer
                    cb = self.prog.bodies.get(tt["f"].get("def", ""))
                    if cb is not None and any(op_place(a) is not None and op_place(a)[0] in aliases for a in tt["args"]):
                        sub = self.transformer(cb)
                        if sub:
                            for vv in ([v] if v else [I, E, F]):
                                r = sub["arms"].get(vv)
                                if r == "panic":
                                    return "panic" if v else outs
                                if isinstance(r, set):
                                    outs |= r
            if passthru and v:
                outs.add(v)
            if not ret_is_nom and not outs:
                return "payload"
            return outs

        if sw is None:
            for v in (I, E, F):
                summ["arms"][v] = region_out([0], v)
            # a function that panics unconditionally on a sub-case (assert!(matches!(..))) is handled by the
            # generic panic audit; here only discriminant-directed arms are considered
            self._assert_arms(b, aliases, summ)
            return summ
        t = b.term(sw)
        listed = {}
        for val, tgt in t["cases"]:
            listed[int(val)] = tgt
        for d, v in VAR.items():
            tgt = listed.get(d, t["else"])
            if b.term(tgt)["t"] == "unreachable" and d not in listed:
                summ["arms"][v] = set()
                continue
            summ["arms"][v] = region_out([tgt], v)
        return summ

    def _assert_arms(self, b, aliases, summ):
        """`assert!(matches!(e, Incomplete(..)))`-style handlers: a switch on the discriminant that leads to a panic"""
        for sb in b.live_blocks():
            t = b.term(sb)
            if t["t"] != "switch":
                continue
            pl = op_place(t["on"])
            if pl is None or len(pl) != 1:
                continue
            for (bb, jj, rv) in b.defs_of(pl[0]):
                if jj != "term" and rv[0] == "disc":
                    base = rv[1][0]
                    ok = base in aliases or any(o[0] == "arg" and o[1] == summ["param"] for o in b.trace_local(base))
                    if not ok:
                        continue
                    listed = {int(v): tgt for v, tgt in t["cases"]}
                    rets = set(b.return_blocks())
                    for d, v in VAR.items():
                        tgt = listed.get(d, t["else"])
                        if not (b.reachable_from(tgt) & rets):
                            summ["arms"][v] = "panic"

    # ---------------------------------------------------------------- value classes inside a body
    def body_out(self, b, incoming=None):
        """variants the error returned by `b` may carry (for parser bodies: Result<_, nom::Err>)"""
        if incoming is None and b.id in self.out:
            return self.out[b.id]
        if b.id in self._in_progress:
            return set()
        self._in_progress.add(b.id)
        val = {}
        out = set()
        # seed: nom::Err-typed parameters of closures carry `incoming`
        if incoming is not None:
            for i in range(1, b.argc + 1):
                if is_nom_err_ty(b.local_ty(i)):
                    val[i] = set(incoming)
        order = b._rpo()
        for _ in range(6):
            before = (sum(len(v) for v in val.values()), len(out))
            for blk in order:
                for s in b.stmts(blk):
                    if s[0] != "=":
                        continue
                    dst, rv = s[1], s[2]
                    if len(dst) != 1:
                        continue
                    d = dst[0]
                    if rv[0] == "use" or rv[0] == "cast":
                        q = op_place(rv[1] if rv[0] == "use" else rv[2])
                        if q is not None and q[0] in val:
                            val.setdefault(d, set()).update(val[q[0]])
                    elif rv[0] == "agg" and rv[1]["k"] == "adt":
                        if rv[1]["adt"] == "nom::internal::Err":
                            val.setdefault(d, set()).add(rv[1]["variant"])
                        elif rv[1]["adt"] == "core::result::Result" and rv[1]["variant"] == "Err":
                            q = op_place(rv[2][0]) if rv[2] else None
                            if q is not None and q[0] in val:
                                val.setdefault(d, set()).update(val[q[0]])
                t = b.term(blk)
                if t["t"] != "call" or len(t["dest"]) != 1:
                    continue
                d = t["dest"][0]
                dty = b.local_ty(d)
                n = callee(t)
                args = t["args"]
                a0 = op_place(args[0]) if args else None
                if re.search(r"result::Result::(map_err)$", n) and a0 is not None:
                    inc = val.get(a0[0], set())
                    res = set()
                    for fn in t["f"].get("fns", []):
                        cb = self.prog.bodies.get(fn)
                        if cb is None:
                            # `map_err(nom::Err::Error)` : a variant constructor used as a function
                            if re.search(r"nom::internal::Err::(Error|Failure|Incomplete)$", fn):
                                res.add(fn.split("::")[-1])
                            continue
                        tr = self.transformer(cb)
                        if tr is None:
                            res |= self._const_outs(cb)
                            continue
                        for v in inc:
                            r = tr["arms"].get(v)
                            if r == "panic":
                                self.handler_reports.append((cb, v, b))
                            elif isinstance(r, set):
                                res |= r
                    for a in args[1:]:
                        k = op_const(a)
                        if k and re.search(r"nom::internal::Err::(Error|Failure|Incomplete)$", short_name(k.get("fn_name", ""))):
                            res.add(k["fn_name"].split("::")[-1])
                    if is_nom_result_ty(dty) or is_nom_err_ty(dty):
                        val.setdefault(d, set()).update(res)
                elif re.search(r"result::Result::(map|inspect|inspect_err|and_then|or_else|map_or|as_ref|as_mut)$|Try>::branch$|ops::try_trait::Try::branch$", n) and a0 is not None:
                    val.setdefault(d, set()).update(val.get(a0[0], set()))
                    if n.endswith("and_then"):
                        for fn in t["f"].get("fns", []):
                            val[d] |= self.item_class(fn)
                elif re.search(r"FromResidual<.*>>::from_residual$", n) and a0 is not None:
                    inc = val.get(a0[0], set())
                    ga = t["f"].get("gargs", [])
                    same = len(ga) >= 2 and "nom::internal::Err<" in ga[0]
                    if same:
                        if t["dest"] == [0]:
                            out |= inc
                        else:
                            val.setdefault(d, set()).update(inc)
                    else:
                        # conversion through From<nom::Err<E>> for F
                        m = re.search(r"Result<core::convert::Infallible, (nom::internal::Err<.*>)>$", ga[1] if len(ga) > 1 else "")
                        self._convert(b, inc, ga, t)
                elif re.search(r"Into<.*>>::into$|From<.*>>::from$", n) and a0 is not None and a0[0] in val:
                    cb = self.prog.bodies.get(t["f"].get("def", ""))
                    inc = val.get(a0[0], set())
                    if cb is not None:
                        tr = self.transformer(cb)
                        if tr:
                            for v in inc:
                                if tr["arms"].get(v) == "panic":
                                    self.handler_reports.append((cb, v, b))
                else:
                    # a nom::Err value handed to a workspace transformer (handle_nom_error, ...)
                    cb = self.prog.bodies.get(t["f"].get("def", ""))
                    if cb is not None:
                        for ai, a in enumerate(args):
                            q = op_place(a)
                            if q is not None and q[0] in val and is_nom_err_ty(b.local_ty(q[0])):
                                tr = self.transformer(cb)
                                if tr:
                                    for v in val[q[0]]:
                                        if tr["arms"].get(v) == "panic":
                                            self.handler_reports.append((cb, v, b))
                    if is_nom_result_ty(dty):
                        cls = set()
                        f = t["f"]
                        ids = list(f.get("fns", []))
                        if f.get("def"):
                            ids.append(f["def"])
                        if f.get("closure"):
                            ids.append(f["closure"])
                        if f.get("res") == "indirect":
                            # calling a closure value: its definition is an aggregate in this body
                            pl = op_place(f["ptr"])
                            if pl is not None:
                                for o in b.trace_local(pl[0]):
                                    if o[0] == "rv" and o[1][0] == "agg" and o[1][1].get("def"):
                                        ids.append(o[1][1]["def"])
                                    if o[0] == "call":
                                        ids += o[2]["f"].get("fns", [])
                                        if o[2]["f"].get("def"):
                                            ids.append(o[2]["f"]["def"])
                        for a in args:
                            k = op_const(a)
                            if k and "fn" in k:
                                ids.append(k["fn"])
                                ids += k.get("fns", [])
                            q = op_place(a)
                            if q is not None and len(q) == 1:
                                for o in b.trace_local(q[0], 4):
                                    if o[0] == "rv" and o[1][0] == "agg" and o[1][1].get("def"):
                                        ids.append(o[1][1]["def"])
                                    if o[0] == "call":
                                        ids += o[2]["f"].get("fns", [])
                                        if o[2]["f"].get("def") and not is_nom_result_ty(b.local_ty(o[2]["dest"][0])):
                                            ids.append(o[2]["f"]["def"])
                        for x in ids:
                            if x == b.id:
                                continue
                            cls |= self.item_class(x)
                        val.setdefault(d, set()).update(cls)
                if t["dest"] == [0] and 0 in val:
                    out |= val[0]
            if 0 in val:
                out |= val[0]
            after = (sum(len(v) for v in val.values()), len(out))
            if after == before:
                break
        self._in_progress.discard(b.id)
        if incoming is None:
            self.out[b.id] = out
        return out

    def _const_outs(self, cb):
        outs = set()
        for (i, j, p, rv, line) in cb.assigns():
            if rv[0] == "agg" and rv[1]["k"] == "adt" and rv[1]["adt"] == "nom::internal::Err":
                outs.add(rv[1]["variant"])
        return outs

    def _convert(self, b, inc, gargs, t):
        """`?` converting nom::Err<E> into another error type through a workspace From impl"""
        if len(gargs) < 2:
            return
        m = re.search(r"Result<core::convert::Infallible, (nom::internal::Err<.*>)>$", gargs[1])
        if not m:
            return
        src = short_name("<X as core::convert::From<%s>>::from" % m.group(1))
        src_arg = src[len("<X as core::convert::From<"):-len(">>::from")]
        for cb in self.prog.bodies.values():
            if cb.kind == "assoc_fn" and cb.short.endswith("core::convert::From<%s>>::from" % src_arg) or \
                    (cb.kind == "assoc_fn" and ("core::convert::From<%s> for " % src_arg) in cb.short and cb.short.endswith("::from")):
                tr = self.transformer(cb)
                if tr:
                    for v in inc:
                        if tr["arms"].get(v) == "panic":
                            self.handler_reports.append((cb, v, b))
