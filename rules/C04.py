"""C04 — Hostile but well-formed frames cost bounded work and get the RFC's error (structural clauses)."""
from rules.common import *

TECHNIQUE = ("static analysis: type-directed sink detection (element-wise iteration of u64 ranges, index-sized allocation, "
             "loops to a peer parameter) with def-use to the peer-controlled source and dominance of the validating check; "
             "validate-before-use dominance for ACK handling; error-construction presence; sibling operand agreement")
LEVEL_TEXT = ("Static analysis of the type-checked MIR of /repo: (R1) every place where work or memory is sized by a "
              "peer-chosen integer — element-wise iteration of RangeInclusive<u64> values coming from an ACK frame, "
              "IndexDeque::insert with an index taken from a frame or packet number, the loop up to the peer's "
              "active_connection_id_limit — is found by type and def-use, and must be dominated by the success of the "
              "check that bounds that integer by local state; (R2) in each ACK handler the acknowledged packets are "
              "processed only on the success edge of update_largest, whose every successful return is dominated by the "
              "comparison with the largest number sent; (R3) the handlers named in the table construct the prescribed "
              "connection error on a conditional path; (R4) sibling frame parsers bound offset+length, not a value with "
              "itself. Necessary structural conditions; actual time and memory are not decided.")
NOT_DECIDED = ["actual time/memory consumed; that every hostile value yields the RFC's error (only presence/order of checks)",
               "explicit-panic audit of the whole handler slice (97 site kinds today; only the decode slice is audited, in C03-R2)",
               "AckFrame::iter range arithmetic (unchecked subtraction on first_range/gap/range: value-level)"]

ACK_SRC = re.compile(r"frame::ack::AckFrame::(iter|ranges|largest|first_range)$|frame::ack::AckFrame as core::iter::traits::collect::IntoIterator>::into_iter$")
ELEMENTWISE = re.compile(r"Iterator>?::(next|collect|for_each|sum|count|fold|last|max|min|all|any|find)$")


def derives_from_call(body, op, rx, depth=6):
    """does the operand's value derive (through copies, refs, call arguments) from a call matching rx"""
    seen = set()
    work = [(op, depth)]
    while work:
        o, d = work.pop()
        p = op_place(o)
        if p is None or d < 0 or p[0] in seen:
            continue
        seen.add(p[0])
        for (bb, jj, rv) in body.defs_of(p[0]):
            if jj == "term":
                if rx.search(callee(rv)):
                    return True
                for a in rv["args"]:
                    work.append((a, d - 1))
            else:
                for a in rvalue_operands(rv):
                    work.append((a, d - 1))
                for pl in rvalue_places(rv):
                    work.append((["c", pl], d - 1))
    return False


def run(ctx):
    prog = ctx.prog
    ctx.rule("R1", "peer-sized work is validated first: element-wise iteration of ACK ranges, index-sized deque growth and "
                   "loops to a peer parameter are dominated by the check bounding the peer's integer by local state")
    ctx.rule("R2", "validate-before-use for ACKs: on_packet_acked / range expansion only on the success edge of "
                   "update_largest; every successful return of update_largest is dominated by `largest > sent.largest()`")
    ctx.rule("R3", "prescribed-error presence (handler -> ErrorKind constructed on a conditional path)")
    ctx.rule("R4", "sibling agreement of range-bound checks in frame parsers: the sum compared with VARINT_MAX adds two different values")

    # ---------------------------------------------------------------- R1 (s1): element-wise iteration of ack ranges
    sinks = []
    for b in sorted(prog.bodies.values(), key=lambda x: x.id):
        if b.crate not in ("qbase", "qrecovery", "qcongestion", "qconnection"):
            continue
        for i, t in b.calls():
            n = callee(t)
            if not ELEMENTWISE.search(n) and not re.search(r"Iterator>?::next$", callee_orig(t) or ""):
                continue
            g = " ".join(t["f"].get("gargs", []))
            if "RangeInclusive<u64>" not in g:
                continue
            flat = ("Flat" in g) or g.startswith("core::ops::range::RangeInclusive<u64>") or g.startswith("core::iter::adapters::rev::Rev<core::ops::range::RangeInclusive<u64>")
            if not flat:
                continue
            if not (derives_from_call(b, t["args"][0], ACK_SRC) or
                    any(derives_from_call(pb, ["c", [1]], ACK_SRC) for pb in [b] if False)):
                # inner `for pn in range` loops: the range comes from the outer iterator over AckFrame::iter
                if not any(ACK_SRC.search(callee(tt)) for _, tt in b.calls()):
                    continue
            sinks.append((b, i, t))
    ctx.floor("R1", "element-wise iterations of ACK ranges", len(sinks), 5)
    for (b, i, t) in sinks:
        ctx.touch(b)
        ub = call_blocks(b, r"SentRotateGuard::update_largest$")
        ok = any(guarded_by_ok(b, u, i) for u in ub)
        via = "guarded by the success of update_largest in the same function" if ok else ""
        if not ok:
            # validated by every caller?
            callers = [(prog.bodies.get(c), blk) for (c, kind, blk) in prog.callers().get(b.id, []) if kind in ("call", "cha")]
            callers = [(c, blk) for c, blk in callers if c is not None]
            if callers and all(any(guarded_by_ok(c, u, blk) for u in call_blocks(c, r"SentRotateGuard::update_largest$")) for c, blk in callers):
                ok = True
                via = "every caller validates with update_largest first"
        ctx.ob("R1", "%s|per-packet-number iteration of ACK ranges is validated first" % b.short, ok, b.where(t["line"]),
               "%s over RangeInclusive<u64> values taken from an ACK frame (up to 2^62 iterations for a 20-byte frame): %s"
               % (callee(t).split("::")[-1], via or "NOT preceded by update_largest — the frame's largest/ranges are "
                  "peer-chosen and unvalidated here, so one small ACK costs unbounded CPU (under the congestion-controller / "
                  "journal lock)"))
    # ---------------------------------------------------------------- R1 (s2): index-sized growth
    ins = []
    for (b, i, t) in prog.call_sites(r"IndexDeque::insert$"):
        if b.crate not in ("qbase", "qrecovery", "qcongestion", "qconnection") or b.short.startswith("qbase::util::index_deque"):
            continue
        ins.append((b, i, t))
    ctx.floor("R1", "IndexDeque::insert call sites", len(ins), 2)
    for (b, i, t) in ins:
        ctx.touch(b)
        idx = t["args"][1]
        # bounded if a dominating comparison relates the index to the deque's own extent (largest()/len()) and exits
        bounded = False
        for sb in b.live_blocks():
            tt = b.term(sb)
            if tt["t"] != "switch" or not b.dominates(sb, i):
                continue
            pl = op_place(tt["on"])
            if not pl or len(pl) != 1:
                continue
            for (bb, jj, rv) in b.defs_of(pl[0]):
                if jj != "term" and rv[0] == "bin" and rv[1] in ("Gt", "Ge", "Lt", "Le"):
                    sides = [rv[2], rv[3]]
                    has_idx = any(_same_origin(b, s, idx) for s in sides)
                    has_ext = any(derives_from_call(b, s, re.compile(r"IndexDeque::(largest|len)$")) for s in sides)
                    if has_idx and has_ext:
                        bounded = True
        ctx.ob("R1", "%s|IndexDeque::insert(index) bounded by the deque's extent" % b.short, bounded, b.where(t["line"]),
               "insert() grows the deque up to the given index (gap filled with defaults); the index comes from the peer "
               "(sequence / packet number): %s" % ("a dominating comparison with largest()/len() bounds the growth" if bounded else
                                                   "NO comparison with the current extent — one frame/packet allocates index - offset entries"))
    sl = ctx.anchor("R1", "qbase::cid::local_cid::LocalCids::set_limit")
    if sl:
        # loop bound is the argument; must be clamped (min / comparison with a local constant) before the loop
        loops = [i for i, t in sl.calls() if callee(t).endswith("::next") and t["args"] and op_place(t["args"][0]) is not None and
                 "Range<u64>" in sl.local_ty(op_place(t["args"][0])[0])]
        clamp = any(re.search(r"::min$|::clamp$", callee(t)) for i, t in sl.calls())
        ctx.ob("R1", "%s|loop to the peer's active_connection_id_limit is clamped" % sl.short, bool(loops) and clamp, sl.where(),
               "loop over largest()..active_cid_limit issuing one connection ID per iteration (%d loop site(s)); the limit is "
               "the peer's transport parameter (validated only to be >= 2): clamped by min/clamp: %s" % (len(loops), clamp))

    # ---------------------------------------------------------------- R2
    hs = prog.find(r"^<qconnection::space::Ack(Initial|Handshake|Data)Space as qbase::frame::io::ReceiveFrame<qbase::frame::ack::AckFrame>>::recv_frame$")
    ctx.floor("R2", "ACK handlers", len(hs), 3)
    for b in hs:
        ctx.touch(b)
        ub = call_blocks(b, r"SentRotateGuard::update_largest$")
        for rx, what in ((r"SentRotateGuard::on_packet_acked$", "on_packet_acked"), (r"frame::ack::AckFrame::iter$", "range expansion")):
            cs = call_blocks(b, rx)
            ok = bool(ub) and bool(cs) and all(any(guarded_by_ok(b, u, c) for u in ub) for c in cs)
            ctx.ob("R2", "%s|%s only after update_largest succeeded" % (b.short.split(" as ")[0][1:], what), ok, b.where(),
                   "%s at %s guarded by the Ok edge of update_largest at %s: %s" % (what, cs, ub, ok))
    ul = ctx.anchor("R2", "qrecovery::journal::sent::SentRotateGuard::update_largest")
    if ul:
        oks = [i for (i, j, rv, line) in agg_sites(ul, r"^core::result::Result$", "Ok")]
        root = None
        pv = [i for (i, j, rv, line) in agg_sites(ul, r"error::ErrorKind$", "ProtocolViolation")]
        for sb in ul._rpo():
            t = ul.term(sb)
            if t["t"] == "switch" and pv and ul.dominates(sb, pv[0]):
                pl = op_place(t["on"])
                if pl and any(jj != "term" and rv[0] == "bin" and rv[1] in ("Gt", "Ge", "Lt", "Le") for (bb, jj, rv) in ul.defs_of(pl[0])):
                    root = sb
        ok = root is not None and bool(oks) and all(ul.dominates(root, o) for o in oks)
        ctx.ob("R2", "%s|every Ok return passes the largest-sent comparison" % ul.short, ok, ul.where(),
               "Ok(..) built at %s; comparison `ack.largest() > sent_packets.largest()` at bb%s dominates all of them: %s — a "
               "fast path that returns Ok before the comparison lets an ACK for never-sent packets through" % (oks, root, ok))
    # dispatchers consume the frame before validation
    for b in prog.find(r"^qconnection::space::(initial|handshake|data)::frame_dispathcer::\{closure#0\}$"):
        ctx.touch(b)
        pre = [callee(t).split("::")[-2] + "::" + callee(t).split("::")[-1] for i, t in b.calls()
               if re.search(r"ArcCC as qcongestion::Transport>::on_ack_rcvd$|Transport::on_ack_rcvd$|ArcRcvdJournal::on_rcvd_ack$", callee(t)) or
               re.search(r"Transport::on_ack_rcvd$", callee_orig(t) or "")]
        ctx.ob("R2", "%s|ACK consumers run only after validation" % b.short, not pre, b.where(),
               "the dispatcher hands the unvalidated ACK frame to %s before update_largest runs (validation happens later in "
               "the piped Ack*Space task): the congestion controller and the received-journal iterate peer-chosen ranges of "
               "a frame that may acknowledge packets never sent" % (pre or "nothing"))
    ctx.floor("R2", "frame dispatchers", len(prog.find(r"^qconnection::space::(initial|handshake|data)::frame_dispathcer::\{closure#0\}$")), 3)

    # ---------------------------------------------------------------- R3
    table = [("qrecovery::journal::sent::SentRotateGuard::update_largest", "ProtocolViolation"),
             ("qbase::cid::remote_cid::RemoteCids::recv_new_cid_frame", "ConnectionIdLimit"),
             ("qbase::cid::local_cid::LocalCids::recv_retire_cid_frame", None),
             ("qrecovery::recv::recver::Recv::recv", "FlowControl"),
             ("qbase::flow::RecvController::on_new_rcvd", "FlowControl")]
    for fn, kind in table:
        b = ctx.anchor("R3", fn)
        if not b:
            continue
        eks = [(i, rv[1]["variant"]) for (i, j, rv, line) in agg_sites(b, r"error::ErrorKind$")]
        cond = [i for i, k in eks if not all(b.dominates(i, r) for r in b.return_blocks())]
        ok = bool(eks) and len(cond) == len(eks) and (kind is None or any(k == kind for _, k in eks))
        ctx.ob("R3", "%s|%s" % (b.short, kind or "rejects"), ok, b.where(), "error kinds constructed conditionally: %s" % sorted(set(k for _, k in eks)))
    for name in ("qbase::frame::new_connection_id::be_new_connection_id_frame", "qbase::frame::max_streams::max_streams_frame_with_dir"):
        bs = [x for x in prog.find("^" + re.escape(name) + r"(::\{closure#\d+\})?$")]
        ok = any(any(rv[0] == "agg" and rv[1]["k"] == "adt" and rv[1]["adt"] == "nom::internal::Err" for (_, _, _, rv, _) in x.assigns()) or
                 any(re.search(r"make_error$|nom::internal::Err::", callee(t)) for _, t in x.calls()) or
                 any(re.search(r"nom::combinator::verify", " ".join(t["f"].get("fns", [])) + callee(t)) for _, t in x.calls()) for x in bs)
        ctx.ob("R3", "%s|rejects impossible values while parsing" % name, bool(bs) and ok, bs[0].where() if bs else "",
               "parser constructs a nom error / uses verify for out-of-range values: %s" % ok)

    # ---------------------------------------------------------------- R4
    n4 = 0
    for b in sorted(prog.bodies.values(), key=lambda x: x.id):
        if not b.short.startswith("qbase::frame::"):
            continue
        for (i, j, p, rv, line) in b.assigns():
            if rv[0] != "bin" or rv[1] not in ("Gt", "Ge"):
                continue
            k = op_const(rv[3])
            if not (k and k.get("named", "").endswith("varint::VARINT_MAX")):
                continue
            # the left side is a sum
            src = op_place(rv[2])
            if src is None:
                continue
            adds = []
            for o in b.trace_local(src[0]):
                if o[0] == "place" and len(o[1]) == 2 and o[1][1] == ".0":
                    for (bb, jj, rv2) in b.defs_of(o[1][0]):
                        if jj != "term" and rv2[0] == "bin" and rv2[1] == "AddWithOverflow":
                            adds.append(rv2)
            for a in adds:
                n4 += 1
                ctx.touch(b)
                ra = _var_roots(b, a[2])
                rb = _var_roots(b, a[3])
                ok = not (ra and rb and ra == rb)
                ctx.ob("R4", "%s|bound check adds two different values" % b.short, ok, b.where(line),
                       "`x + y > VARINT_MAX` with x from %s and y from %s — sibling parsers bound offset + length; a value added "
                       "to itself leaves offset + length unchecked (it can exceed 2^62-1 and overflow later arithmetic)"
                       % (sorted(ra), sorted(rb)))
    ctx.floor("R4", "offset+length bound checks in frame parsers", n4, 2)
    # ---------------------------------------------------------------- R1 (allocation): capacity reserved from a decoded integer
    nalloc = 0
    for b in prog.bodies.values():
        if b.crate != "qbase" or b.kind in ("const", "promoted") or not re.search(r"^qbase::(frame|param|packet|cid|token|varint)", b.short):
            continue
        for i, t in b.calls():
            if re.search(r"Vec(<.*>|::<.*>)?::(with_capacity|reserve|reserve_exact)$|VecDeque(<.*>|::<.*>)?::(with_capacity|reserve)$|"
                         r"BytesMut::(with_capacity|reserve)$|String::(with_capacity|reserve)$", callee(t)) and t["args"]:
                nalloc += 1
                a = t["args"][-1]
                peer = False
                for pl in deep_places(b, a, 6):
                    for og in b.trace_local(pl[0]):
                        if og[0] == "call" and re.search(r"VarInt::into_u64$|VarInt::into_inner$|varint::be_varint$|be_u(8|16|32|64)$", callee(og[2])):
                            peer = True
                if peer:
                    ctx.touch(b)
                    ctx.ob("R1", "%s|%s sized by a decoded integer" % (b.short, callee(t).split("::")[-1]), False, b.where(t["line"]),
                           "the capacity argument derives from a value parsed out of the packet (up to 2^62-1) before the announced elements "
                           "were seen: one small frame makes the decoder reserve gigabytes or panic with `capacity overflow`")
    ctx.stats["R1.decoder_allocation_sites"] = nalloc
    # ---------------------------------------------------------------- R5 by reference
    ctx.rule("R5", "the prescribed error is raised for exactly the hostile values: operand roles and strictness of the final-size, "
                   "stream-limit and stream-count comparisons (C12-R1/R5, C11-R5, C13-R11 and C14-R3 — one replacement id per retirement — re-evaluated)")
    import importlib
    from qlint import framework as fw
    n5 = 0
    for pid, keep in (("C12", lambda o: o.rule in ("R1", "R5")), ("C11", lambda o: o.rule == "R5"), ("C13", lambda o: o.rule == "R11"), ("C14", lambda o: o.rule == "R3")):
        sub = fw.Ctx(pid, ctx.tier, ctx.seed, prog)
        importlib.import_module("rules." + pid).run(sub)
        for o in sub.obs:
            if keep(o) and not o.key.split("|")[1].startswith("floor:") and "floor:" not in o.key:
                # known findings of the owning property stay with that property
                if pid == "C12" and o.rule == "R1" and not o.ok:
                    continue
                n5 += 1
                ctx.ob("R5", "%s:%s" % (pid, o.key), o.ok, o.where, o.detail)
        ctx.functions |= sub.functions
    ctx.floor("R5", "comparison obligations inherited from C12/C11", n5, 8)
    ctx.assume("SentRotateGuard::update_largest's comparison uses the highest packet number actually sent (value-level)")


def _var_roots(body, op):
    """names of the source variables an operand derives from (through into_u64 / copies)"""
    out = set()
    seen = set()
    work = [op]
    while work:
        o = work.pop()
        p = op_place(o)
        if p is None or p[0] in seen:
            continue
        seen.add(p[0])
        n = body.local_name(p[0])
        if n:
            out.add(n)
            continue
        for (bb, jj, rv) in body.defs_of(p[0]):
            if jj == "term":
                for a in rv["args"]:
                    work.append(a)
            else:
                for a in rvalue_operands(rv):
                    work.append(a)
    return out


def _same_origin(body, a, b):
    ra, rb = _var_roots(body, a), _var_roots(body, b)
    if ra and rb and (ra & rb):
        return True
    pa, pb = op_place(a), op_place(b)
    return pa is not None and pa == pb
