"""C02 — A connection survives an adversarial network (structural clauses: authentication gate, no panic from the wire, lock order)."""
from rules.common import *
from rules.lockorder import LockGraph

TECHNIQUE = ("static analysis: lock-order graph over Mutex/RwLock guard regions with transitive acquire summaries (cycle "
             "detection), authenticate-before-dispatch dominance (shared with C06-R1), aggregation of the necessary conditions "
             "other properties decide for the same mechanisms (decode panics C03, replay/packet-number C10/C07, "
             "retransmission wiring C01, timer re-arm C13)")
LEVEL_TEXT = ("Static analysis of the type-checked MIR of /repo: (R1) frames are dispatched only from packets that passed "
              "header-protection removal, packet-number acceptance and AEAD authentication (the C06-R1 obligations, "
              "re-evaluated here); (R2) the wire-facing decode slice contains no undischarged panic (the C03-R1/R2/R5 "
              "obligations, re-evaluated here); (R3) the lock-order graph of the transport crates — guard regions from "
              "lock()/read()/write() or guard-returning wrappers to the guard's Drop, edges held -> acquired through "
              "resolved calls and bounded class-hierarchy fan-out — has no cycle between distinct lock classes, and no "
              "packet-assembly Package::dump impl (all of which run under the sent-journal guard) acquires the "
              "congestion-controller lock, the inversion the repository documents in burst.rs; (R4/R5) the at-most-once acceptance, "
              "packet-number consumption, retransmission-wiring and timer re-arm obligations of C10/C07/C01/C13 are re-evaluated "
              "because a connection under loss, duplication and reordering exercises exactly those paths. Necessary conditions for "
              "'never panics or stops making progress'; handshake completion, delivery and bounded-time failure are not decided.")
NOT_DECIDED = ["handshake completion under bounded faults; bounded-time failure notification; delivery of all application data",
               "deadlocks involving async await points, channels or condition variables", "instance-level (same class, two objects) lock nesting"]

CC = "qcongestion::congestion::CongestionController"


def run(ctx):
    prog = ctx.prog
    ctx.rule("R1", "authenticate before dispatch; one forged key-phase bit cannot rotate the keys twice (C06-R1 and C06-R4 re-evaluated)")
    ctx.rule("R2", "no panic from the wire to the task (C03 R1/R2/R5/R8 obligations re-evaluated)")
    ctx.rule("R4", "replayed packets are never accepted and packet numbers never reused (C10-R2/R4/R5 and C07-R2 re-evaluated)")
    ctx.rule("R5", "progress: lost data and a lost FIN are re-offered, completion consults the buffer, the loss-detection timer is "
                   "re-armed (C01-R1/R3/R4 and C13-R6 re-evaluated)")
    ctx.rule("R3", "lock-order acyclicity between distinct lock classes; no Package::dump acquires the congestion-controller lock")
    # ---------------------------------------------------------------- R1 / R2 / R4 / R5 by reference
    import importlib
    from qlint import framework as fw
    known = set((f["property"], f["key"]) for f in fw.load_known().get("findings", []))
    INHERIT = (
        ("C06", "R1", lambda o: o.rule in ("R1", "R4"), 8),
        ("C03", "R2", lambda o: o.rule in ("R1", "R2", "R5", "R8"), 8),
        ("C10", "R4", lambda o: o.rule in ("R2", "R4", "R5"), 6),
        ("C07", "R4", lambda o: o.rule in ("R2",), 20),
        ("C01", "R5", lambda o: o.rule in ("R1", "R3", "R4"), 20),
        ("C13", "R5", lambda o: o.rule in ("R6",), 3),
    )
    for pid, rid, keep, floor_n in INHERIT:
        sub = fw.Ctx(pid, ctx.tier, ctx.seed, prog)
        importlib.import_module("rules." + pid).run(sub)
        n = 0
        for o in sub.obs:
            if keep(o):
                if not o.ok and (pid, o.key) in known:
                    continue   # a recorded finding of the owning property is reported there, once
                n += 1
                ctx.ob(rid, "%s:%s" % (pid, o.key), o.ok, o.where, o.detail)
        ctx.functions |= sub.functions
        ctx.floor(rid, "obligations inherited from %s" % pid, n, floor_n)
    # ---------------------------------------------------------------- R3
    lg = LockGraph(prog)
    classes = set()
    for (a, c) in lg.edges:
        classes.add(a)
        classes.add(c)
    nlocks = sum(len(v) for v in lg.direct.values())
    ctx.floor("R3", "lock acquisition sites analysed", nlocks, 90)
    ctx.floor("R3", "lock-order edges", len(lg.edges), 40)
    ctx.stats["R3.lock_classes"] = sorted(classes)
    ctx.stats["R3.edges"] = ["%s -> %s  (e.g. %s bb%d via %s)" % (a, c, w[0][0], w[0][1], w[0][2]) for (a, c), w in sorted(lg.edges.items()) if a != c][:120]
    cyc = [c for c in lg.cycles() if len(c) > 1]
    ctx.ob("R3", "no cycle between distinct lock classes", not cyc, "",
           "%d lock classes, %d ordered pairs; cycles: %s" % (len(classes), len(lg.edges), "none" if not cyc else "; ".join(
               " -> ".join(c + [c[0]]) + " [" + "; ".join("%s bb%d calls %s" % lg.edges[(c[k], c[(k + 1) % len(c)])][0] for k in range(len(c))) + "]" for c in cyc[:4])))
    for c in cyc[:6]:
        ctx.ob("R3", "cycle|" + " -> ".join(sorted(c)), False, "", " -> ".join(c + [c[0]]))
    # the documented hazard: cc is locked when may_loss takes the sent journal; so nothing that runs under the
    # sent-journal guard (every Package::dump) may lock cc
    dumps = [b for b in prog.find(r"packet::io::Package<.*>>::dump$") if b.crate in ("qbase", "qrecovery", "qconnection", "qdatagram", "qcongestion")]
    ctx.floor("R3", "Package::dump impls", len(dumps), 60)
    bad = []
    for b in dumps:
        ctx.touch(b)
        acq = set()
        seen = prog.reachable_bodies([b], edge_filter=lambda bb, cid, kind, blk: kind in ("call", "closure", "conv") or kind == "cha")
        for x in seen:
            for (cl, blk) in lg.direct.get(x, []):
                acq.add(cl)
        if any(CC in cl for cl in acq):
            bad.append(b.short)
    ctx.ob("R3", "no Package::dump acquires the congestion-controller lock", not bad, "qconnection/src/path/burst.rs",
           "packet assembly holds the sent-journal guard (NewPacketGuard inside PacketWriter) while packages are dumped; "
           "Feedback::may_loss is called with the congestion controller locked and takes the sent journal: a dump that "
           "locks cc closes the cycle (documented in burst.rs::ack_package). dump impls reaching a cc lock: %s" % (bad or "none"))
    ml = [b for b in prog.find(r"qcongestion::Feedback>::may_loss$")]
    takes = [b.short for b in ml if any("SentJournal" in cl for x in prog.reachable_bodies([b]) for (cl, blk) in lg.direct.get(x, []))]
    ctx.ob("R3", "Feedback::may_loss takes the sent journal (the established order cc -> sent journal)", len(takes) == len(ml) and len(ml) >= 3, "",
           "may_loss impls %d, acquiring the sent journal: %d (if this order changed, the forbidden direction above must be re-derived)" % (len(ml), len(takes)))
    ctx.note("R3: DataStreams::poll_open_{bi,uni}_stream and Listener::poll_accept_bi_stream call themselves recursively while "
             "their guards are still alive (re-entrant std::sync::Mutex lock = self-deadlock); the recursive call is only reached "
             "when get_remote() is None and poll_ready() is Ready under the same guard, which cannot both hold - infeasible path, "
             "recorded as a note, recursion edges are excluded from the graph")
