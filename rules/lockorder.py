"""A8 — lock-order graph.

Lock class  = the T of the Mutex<T>/RwLock<T> a guard comes from (generic parameters stripped).
Held region = blocks between the acquisition (lock()/read()/write() call, or a call to a guard-returning wrapper) and
              the Drop of the local the guard lives in.
While held, every call contributes the callee's transitive *acquires* summary (resolved edges + CHA).
An edge  A -> B  means "B may be acquired while A is held".  A cycle is a potential deadlock.
"""
import re
from collections import defaultdict

from rules.common import *

LOCK_RX = re.compile(r"sync::poison::mutex::Mutex::(lock|try_lock)$|sync::poison::rwlock::RwLock::(read|write|try_read|try_write)$")
GUARD_TY = re.compile(r"MutexGuard<|RwLockReadGuard<|RwLockWriteGuard<")
SKIP = ("qevent", "h3_shim", "qudp", "qresolve", "qmacro", "qinterface", "qtraversal", "qprotocol", "dquic")


def lock_class(ty):
    """the guarded type, with lifetimes dropped and single-letter/ALLCAPS type parameters normalised"""
    m = re.search(r"(?:Mutex|RwLock)<(.*)>$", ty.strip())
    inner = m.group(1) if m else ty
    inner = re.sub(r"'\w+,?\s*", "", inner)
    inner = re.sub(r"\b[A-Z][A-Z0-9]*\b", "_", inner)
    return inner


class LockGraph:
    def __init__(self, prog, cha_limit=8):
        self.prog = prog
        self.cha_limit = cha_limit
        self.guard_adts = self._guard_adts()
        self.direct = {}      # body id -> [(class, block)]
        self.ret_guard = {}   # body id -> set(classes) held by the returned guard
        self.acq = {}         # body id -> set(classes) transitively acquired
        self.edges = defaultdict(list)  # (A, B) -> [(body, block, via)]
        self._scan()
        self._summaries()
        self._edges()

    def _guard_adts(self):
        g = set()
        changed = True
        while changed:
            changed = False
            for n, a in self.prog.adts.items():
                if n in g:
                    continue
                for v in a["variants"]:
                    for f in v["fields"]:
                        if GUARD_TY.search(f["ty"]) or any(x in f["ty"] for x in g):
                            g.add(n)
                            changed = True
        return g

    def is_guard_ty(self, ty):
        return bool(GUARD_TY.search(ty)) or any(re.search(r"(^|[<&( ,])" + re.escape(x) + r"(<|$|>|,|\))", ty) for x in self.guard_adts)

    def _scan(self):
        for b in self.prog.bodies.values():
            if b.crate in SKIP or b.kind in ("const", "promoted"):
                continue
            d = []
            for i, t in b.calls():
                if LOCK_RX.search(callee(t)) and t["args"]:
                    p = op_place(t["args"][0])
                    if p is not None:
                        ty = b.local_ty(p[0]) if len(p) == 1 else None
                        if ty is None:
                            continue
                        d.append((lock_class(ty), i))
            self.direct[b.id] = d
            if d and self.is_guard_ty(b.local_ty(0)):
                self.ret_guard[b.id] = set(c for c, _ in d)

    def _summaries(self):
        # transitive acquires (fixpoint over the call graph)
        for bid, d in self.direct.items():
            self.acq[bid] = set(c for c, _ in d)
        changed = True
        rounds = 0
        while changed and rounds < 30:
            changed = False
            rounds += 1
            for bid in list(self.direct):
                b = self.prog.bodies[bid]
                cur = self.acq[bid]
                n0 = len(cur)
                fan = {}
                for (cid, kind, blk) in self.prog.callees(b, refs=False):
                    if kind == "cha":
                        fan[blk] = fan.get(blk, 0) + 1
                for (cid, kind, blk) in self.prog.callees(b, refs=False):
                    if kind == "cha" and fan.get(blk, 0) > self.cha_limit:
                        continue
                    if kind in ("call", "cha", "closure", "conv") and cid in self.acq:
                        cur |= self.acq[cid]
                if len(cur) != n0:
                    changed = True
        # guard-returning wrappers that only forward another wrapper's guard
        changed = True
        while changed:
            changed = False
            for bid in self.direct:
                b = self.prog.bodies[bid]
                if bid in self.ret_guard or not self.is_guard_ty(b.local_ty(0)):
                    continue
                s = set()
                for i, t in b.calls():
                    cid = t["f"].get("def")
                    if cid in self.ret_guard:
                        s |= self.ret_guard[cid]
                if s:
                    self.ret_guard[bid] = s
                    changed = True

    def held_regions(self, b):
        """[(class set, acquisition block, held blocks)]"""
        out = []
        for i, t in b.calls():
            classes = None
            if LOCK_RX.search(callee(t)) and t["args"]:
                p = op_place(t["args"][0])
                if p is not None and len(p) == 1:
                    classes = {lock_class(b.local_ty(p[0]))}
            else:
                cid = t["f"].get("def")
                if cid in self.ret_guard and self.is_guard_ty(b.local_ty(t["dest"][0]) if len(t["dest"]) == 1 else ""):
                    classes = set(self.ret_guard[cid])
            if not classes or t.get("to") is None or len(t["dest"]) != 1:
                continue
            # follow the guard value through unwrap/expect/moves to the locals that own it
            owners = {t["dest"][0]}
            changed = True
            while changed:
                changed = False
                for (bi, j, p, rv, line) in b.assigns():
                    if len(p) == 1 and rv[0] == "use":
                        q = op_place(rv[1])
                        if q is not None and q[0] in owners and p[0] not in owners and rv[1][0] == "m":
                            owners.add(p[0])
                            changed = True
                for bi, tt in b.calls():
                    if tt["args"] and len(tt["dest"]) == 1:
                        q = op_place(tt["args"][0])
                        if q is not None and len(q) == 1 and q[0] in owners and tt["args"][0][0] == "m" and \
                                re.search(r"(result::Result|option::Option)::(unwrap|expect|unwrap_or_else)$|Try>::branch$", callee(tt)) and tt["dest"][0] not in owners:
                            owners.add(tt["dest"][0])
                            changed = True
            # held until a drop of an owner local (of guard type)
            guard_locals = [l for l in owners if self.is_guard_ty(b.local_ty(l))]
            drops = set()
            for x in b.live_blocks():
                tt = b.term(x)
                if tt["t"] == "drop" and tt["place"][0] in guard_locals and len(tt["place"]) == 1:
                    drops.add(x)
            # moving the guard into a call (mem::drop(guard), a consuming method) also ends the region
            for x in b.live_blocks():
                tt = b.term(x)
                if tt["t"] == "call" and any(a[0] == "m" and op_place(a) is not None and len(op_place(a)) == 1 and op_place(a)[0] in guard_locals for a in tt["args"]):
                    if not re.search(r"(result::Result|option::Option)::(unwrap|expect|unwrap_or_else)$|Try>::branch$", callee(tt)):
                        drops.add(x)
            if 0 in guard_locals or any(l == 0 for l in owners):
                continue  # returned to the caller: the caller's region accounts for it
            held = b.reachable_from(t["to"], avoid=drops) | (drops & b.reachable_from(t["to"]))
            held = set(x for x in held if x not in drops)
            out.append((classes, i, held))
        return out

    def _edges(self):
        for bid in self.direct:
            b = self.prog.bodies[bid]
            regs = self.held_regions(b)
            if not regs:
                continue
            for (classes, acq_blk, held) in regs:
                for x in held:
                    t = b.term(x)
                    if t["t"] != "call" or x == acq_blk:
                        continue
                    inner = set()
                    if LOCK_RX.search(callee(t)) and t["args"]:
                        p = op_place(t["args"][0])
                        if p is not None and len(p) == 1:
                            inner.add(lock_class(b.local_ty(p[0])))
                    ids = []
                    f = t["f"]
                    if f.get("def"):
                        ids.append(f["def"])
                    if f.get("closure"):
                        ids.append(f["closure"])
                    if f.get("res") in ("none", "virtual"):
                        impls = self.prog.trait_impls().get(f.get("orig"), [])
                        if len(impls) <= self.cha_limit:
                            ids += impls
                    for cid in ids:
                        if cid == b.id:
                            continue  # direct recursion: the callee's locks are this very region's (re-entry is reported separately)
                        inner |= self.acq.get(cid, set())
                    for a in classes:
                        for c in inner:
                            self.edges[(a, c)].append((b.short, x, callee(t)))

    def cycles(self, max_len=4):
        adj = defaultdict(set)
        for (a, c) in self.edges:
            adj[a].add(c)
        out = []
        seen = set()
        nodes = sorted(adj)

        def dfs(start, cur, path):
            if len(path) > max_len:
                return
            for n in sorted(adj.get(cur, ())):
                if n == start:
                    cyc = tuple(path)
                    k = tuple(sorted(cyc))
                    if k not in seen:
                        seen.add(k)
                        out.append(list(cyc))
                elif n not in path and n > start:
                    dfs(start, n, path + [n])
        for s in nodes:
            dfs(s, s, [s])
        return out
