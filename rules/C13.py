"""C13 — Loss detection and congestion control follow RFC 9002 (structural clauses)."""
from rules.common import *

TECHNIQUE = ("static analysis: evaluated constants and their def-use, field write-site classification, edge-dominance on "
             "MIR, call-graph information flow")
LEVEL_TEXT = ("Static analysis of the type-checked MIR of /repo: the RFC 9002 constants are checked by evaluated value and "
              "by use at the comparison/shift that consumes them; every write site of bytes_in_flight, congestion_window, "
              "pto_count and the per-packet state is enumerated and classified (who may write, in which direction, under "
              "which dominating guard) and paired with the congestion-controller call the RFC requires on that path; an "
              "information-flow rule requires bytes_in_flight to reach the send quota. Decides these necessary structural "
              "conditions on all paths; does not decide timing behaviour.")
NOT_DECIDED = ["when a packet is declared lost under concrete timings (time threshold arithmetic, timer scheduling)",
               "eventual ack/loss/probe of every ack-eliciting packet (liveness)",
               "congestion-window dynamics over a run; equality of bytes_in_flight with the outstanding packets' sizes "
               "as a running sum (only the pairing of writes is decided)"]

NR = "qcongestion::algorithm::new_reno::NewReno"
CC = "qcongestion::congestion::CongestionController"
PS = "qcongestion::packets::PacketSpace"


def _origin_calls(body, op):
    return [callee(o[2]) for o in local_origins(body, op) if o[0] == "call"]


def run(ctx):
    prog = ctx.prog
    ctx.rule("R1", "RFC 9002 constants by evaluated value and by use: kPacketThreshold=3 feeds the packet-threshold "
                   "comparison, kTimeThreshold=9/8 and kGranularity=1ms feed loss_delay, minimum window 2*max_datagram_size "
                   "at both reductions, PTO back-off 2^pto_count, abandon after pto_count > 6")
    ctx.rule("R2", "in-flight accounting is paired: every write of SentPacket.state away from Inflight is on a path that "
                   "calls the Control method subtracting that packet's bytes; bytes_in_flight has exactly the four RFC writers")
    ctx.rule("R3", "the send quota must depend on bytes_in_flight (information flow through the call graph)")
    ctx.rule("R4", "congestion_window grows only in on_packet_acked after the recovery early-return; shrinks only in "
                   "on_congestion_event (after its own recovery check) and on persistent congestion")
    ctx.rule("R5", "pto_count: +1 only in on_loss_detection_timeout; reset only in on_ack_rcvd under "
                   "peer_completed_address_validation and in discard_epoch")

    # ---------------------------------------------------------------- R1
    v = prog.const_value("qcongestion::congestion::PACKET_THRESHOLD")
    ctx.ob("R1", "PACKET_THRESHOLD==3", v == 3, "qcongestion/src/congestion.rs", "kPacketThreshold evaluates to %s (RFC 9002 §6.1.1: 3)" % v)
    sites = prog.call_sites(r"PacketSpace::detect_lost_packets$")
    ctx.floor("R1", "detect_lost_packets call sites", len(sites), 2)
    for (b, i, t) in sites:
        ctx.touch(b)
        k = op_const(t["args"][2]) if len(t["args"]) > 2 else None
        ok = k is not None and k.get("named", "").endswith("::PACKET_THRESHOLD")
        ctx.ob("R1", "%s|packet_threshold arg is PACKET_THRESHOLD" % b.short, ok, b.where(t["line"]),
               "third argument of detect_lost_packets is %s" % (k.get("named") if k else "not a named constant"))
    # the closure that decides loss must compare idx + packet_threshold against the largest acked index
    dl = ctx.anchor("R1", PS + "::detect_lost_packets")
    if dl:
        found = False
        for c in prog.with_closures(dl):
            ups = {u[0]: u[1] for u in c.get("upvars", [])}
            if "packet_threshold" not in ups:
                continue
            upl = ups["packet_threshold"]
            for (i, j, p, rv, line) in c.assigns():
                if rv[0] == "bin" and rv[1] == "AddWithOverflow":
                    ops = [op_place(rv[2]), op_place(rv[3])]
                    srcs = []
                    for o in (rv[2], rv[3]):
                        pl = op_place(o)
                        if pl is not None and len(pl) == 1:
                            for (bb, jj, rv2) in c.defs_of(pl[0]):
                                if jj != "term" and rv2[0] == "use":
                                    srcs.append(op_place(rv2[1]))
                        srcs.append(pl)
                    if any(s == upl for s in srcs if s):
                        # result must feed an ordering comparison
                        sumlocal = p[0]
                        for (i2, j2, p2, rv2, l2) in c.assigns():
                            if rv2[0] == "bin" and rv2[1] in ("Ge", "Gt", "Le", "Lt"):
                                for o in (rv2[2], rv2[3]):
                                    pl = op_place(o)
                                    if pl and pl[0] == sumlocal:
                                        found = True
                                    elif pl and len(pl) == 1:
                                        for (bb, jj, rv3) in c.defs_of(pl[0]):
                                            if jj != "term" and rv3[0] == "use" and (op_place(rv3[1]) or [None])[0] == sumlocal:
                                                found = True
        ctx.ob("R1", "%s|packet_threshold feeds the ordering comparison" % dl.short, found, dl.where(),
               "captured packet_threshold is added to the packet index and compared (>=) with the largest acked index: %s" % found)
    ld = ctx.anchor("R1", "qcongestion::rtt::Rtt::loss_delay")
    if ld:
        tt = None
        gran = False
        for i, t in ld.calls():
            for a in t["args"]:
                k = op_const(a)
                if k and k.get("named", "").endswith("::TIME_THRESHOLD"):
                    tt = k.get("v")
                    if not callee(t).endswith("Duration::mul_f32"):
                        tt = "used by " + callee(t)
                if k and k.get("named", "").endswith("::GRANULARITY") and re.search(r"cmp::max$|Ord(>)?::max$", callee(t)):
                    gran = True
        ctx.ob("R1", "%s|TIME_THRESHOLD=9/8 multiplies max(latest,smoothed)" % ld.short,
               tt is not None and tt == "1.125", ld.where(), "TIME_THRESHOLD operand evaluates to %s (need 1.125 = 9/8)" % tt)
        ctx.ob("R1", "%s|result floored by GRANULARITY" % ld.short, gran, ld.where(), "max(.., GRANULARITY) present: %s" % gran)
        # the multiplicand is max(latest_rtt, smoothed_rtt): both samples flow into the value that is multiplied
        flds = set()
        for i, t in ld.calls():
            if callee(t).endswith("Duration::mul_f32") and t["args"]:
                for pl in deep_places(ld, t["args"][0], 6):
                    flds |= set(f for f in place_fields(pl) if f in ("latest_rtt", "smoothed_rtt", "min_rtt", "rttvar"))
        ctx.ob("R1", "%s|the threshold is taken over max(latest_rtt, smoothed_rtt)" % ld.short, {"latest_rtt", "smoothed_rtt"} <= flds, ld.where(),
               "RTT fields flowing into the multiplied value: %s — without latest_rtt a path whose RTT has just grown declares packets "
               "lost (and halves the window) while they are younger than 9/8 of the current round trip" % sorted(flds))
    g = ctx.anchor("R1", "qcongestion::rtt::GRANULARITY", kinds=("const",))
    if g:
        ok = False
        for i, t in g.calls():
            if callee(t).endswith("Duration::from_millis") and const_int(t["args"][0]) == 1:
                ok = True
        ctx.ob("R1", "GRANULARITY==1ms", ok, g.where(), "kGranularity is Duration::from_millis(1): %s" % ok)
    # minimum window at both reductions
    n_min = 0
    for (b, i, j, p, rv, line) in field_writes(prog, "NewReno", "congestion_window"):
        ctx.touch(b)
        kind = classify_write(b, i, j)
        if kind[0] != "call" or not kind[1].endswith("cmp::Ord::max"):
            continue
        n_min += 1
        # find the max() call and inspect its second argument: 2 * max_datagram_size()
        pl = op_place(rv[1])
        ok = False
        det = ""
        for (bb, jj, tt2) in b.defs_of(pl[0]):
            if jj == "term":
                for a in tt2["args"]:
                    for o in local_origins(b, a):
                        if o[0] == "rv" and o[1][0] == "bin":
                            pass
                    apl = op_place(a)
                    if apl is None or len(apl) != 1:
                        continue
                    for (b3, j3, rv3) in b.defs_of(apl[0]):
                        if j3 != "term" and rv3[0] == "use":
                            src = op_place(rv3[1])
                            if src and len(src) == 2 and src[1] == ".0":
                                for (b4, j4, rv4) in b.defs_of(src[0]):
                                    if j4 != "term" and rv4[0] == "bin" and rv4[1] == "MulWithOverflow":
                                        c = const_int(rv4[2]) if op_const(rv4[2]) else const_int(rv4[3])
                                        other = rv4[3] if op_const(rv4[2]) else rv4[2]
                                        oc = _origin_calls(b, other)
                                        det = "max(ssthresh, %s * %s)" % (c, oc)
                                        ok = c == 2 and any(x.endswith("max_datagram_size") for x in oc)
        ctx.ob("R1", "%s|window floor is 2*max_datagram_size" % b.short, ok, b.where(line),
               "reduction writes congestion_window = %s (RFC 9002 §7.2: minimum window 2*max_datagram_size)" % (det or "unrecognised"))
    ctx.floor("R1", "window reductions with a floor", n_min, 2)
    bp = ctx.anchor("R1", "qcongestion::rtt::Rtt::base_pto")
    if bp:
        ok = False
        for (i, j, p, rv, line) in bp.assigns():
            if rv[0] == "bin" and rv[1] == "Shl" and const_int(rv[2]) == 1:
                src = op_place(rv[3])
                if src and any(o == ("arg", 2) for o in bp.trace_local(src[0])):
                    ok = True
        ctx.ob("R1", "%s|PTO back-off is 1 << pto_count" % bp.short, ok, bp.where(), "base_pto multiplies by (1 << pto_count): %s" % ok)
    # abandon threshold
    sites = prog.call_sites(r"CongestionController::on_loss_detection_timeout$")
    ctx.floor("R1", "on_loss_detection_timeout call sites", len(sites), 1)
    n_checked = 0
    for (b, i, t) in sites:
        ctx.touch(b)
        dst = t["dest"][0]
        ok = False
        val = None
        if b.short != "<qcongestion::congestion::ArcCC as qcongestion::Transport>::do_tick":
            # RFC 9002 A.6 on_datagram_rcvd runs a PTO that would have expired; the timer-driven site decides abandonment
            continue
        n_checked += 1
        for (i2, j2, p2, rv2, l2) in b.assigns():
            if rv2[0] == "bin" and rv2[1] in ("Gt", "Ge"):
                pl = op_place(rv2[2])
                if pl and (pl[0] == dst or any(o[0] == "call" and o[1] == i for o in b.trace_local(pl[0]))):
                    val = const_int(rv2[3])
                    ok = (rv2[1] == "Gt" and val == 6) or (rv2[1] == "Ge" and val == 7)
        ctx.ob("R1", "%s|abandon when pto_count > 6" % b.short, ok, b.where(t["line"]),
               "returned pto_count compared with %s (connection abandoned after more than 6 consecutive PTOs)" % val)
    ctx.floor("R1", "timer-driven PTO site (Transport::do_tick)", n_checked, 1)

    # ---------------------------------------------------------------- R2
    writers = {}
    for (b, i, j, p, rv, line) in field_writes(prog, "NewReno", "bytes_in_flight"):
        ctx.touch(b)
        if b.short.endswith("::new"):
            continue
        kind = classify_write(b, i, j)
        writers.setdefault(b.short, []).append(kind[0] if kind[0] != "call" else kind[1].split("::")[-1])
    expect = {NR + "::on_packet_sent_cc": ["add"], NR + "::on_packet_acked": ["saturating_sub"],
              NR + "::on_packets_lost": ["saturating_sub"], NR + "::remove_from_bytes_in_flight": ["sub"]}
    for fn, kinds in sorted(expect.items()):
        got = writers.get(fn)
        ctx.ob("R2", "bytes_in_flight writer|%s" % fn, got == kinds, "qcongestion/src/algorithm/new_reno.rs",
               "writes in %s: %s (expected %s)" % (fn, got, kinds))
    for fn in sorted(set(writers) - set(expect)):
        ctx.ob("R2", "bytes_in_flight writer|%s" % fn, False, "qcongestion/src/algorithm/new_reno.rs",
               "unexpected writer of bytes_in_flight: %s %s (RFC 9002 B: only OnPacketSent, OnPacketAcked, OnPacketsLost, "
               "RemoveFromBytesInFlight touch it)" % (fn, writers[fn]))
    # on_packet_sent -> on_packet_sent_cc
    b = ctx.anchor("R2", CC + "::on_packet_sent")
    if b:
        ok = bool(calls(b, r"Control::on_packet_sent_cc$|::on_packet_sent_cc$"))
        ctx.ob("R2", "%s|calls on_packet_sent_cc" % b.short, ok, b.where(), "a sent packet is added to bytes_in_flight: %s" % ok)
    # state writes paired with the controller call
    sw = [(b, i, j, p, rv, line) for (b, i, j, p, rv, line) in field_writes(prog, "SentPacket", "state")
          if not b.short.endswith("SentPacket::new")]
    ctx.floor("R2", "SentPacket.state write sites", len(sw), 2)
    for (b, i, j, p, rv, line) in sw:
        ctx.touch(b)
        root = prog.bodies.get(b.get("root")) if b.get("root") else b
        if root.short == PS + "::on_ack_rcvd":
            cb = call_blocks(b, r"Control::on_packet_acked$")
            ok = any(b.dominates(c, i) for c in cb)
            ctx.ob("R2", "%s|state:=Acked preceded by Control::on_packet_acked" % b.short, ok, b.where(line),
                   "write of SentPacket.state at bb%d dominated by on_packet_acked call blocks %s" % (i, cb))
        elif root.short == PS + "::detect_lost_packets":
            cb = call_blocks(root, r"Control::on_packets_lost$")
            # the lost list is non-empty exactly when some state was set; require the call guarded only by is_empty
            ok = bool(cb)
            ctx.ob("R2", "%s|state:=Retransmitted paired with Control::on_packets_lost" % b.short, ok, b.where(line),
                   "detect_lost_packets calls on_packets_lost for the collected lost packets: %s" % ok)
        else:
            ctx.ob("R2", "%s|unexpected SentPacket.state writer" % b.short, False, b.where(line),
                   "a new site changes SentPacket.state; it must be paired with the Control call that adjusts bytes_in_flight")
    b = ctx.anchor("R2", PS + "::discard")
    if b:
        ok = bool(calls(b, r"Control::remove_from_bytes_in_flight$"))
        ctx.ob("R2", "%s|calls remove_from_bytes_in_flight" % b.short, ok, b.where(), "discarding a space removes its in-flight bytes: %s" % ok)

    # ---------------------------------------------------------------- R3
    sq = ctx.anchor("R3", CC + "::send_quota")
    if sq:
        seen = prog.reachable_bodies([sq])
        readers = []
        for bid in seen:
            bb = prog.bodies.get(bid)
            if bb is None:
                continue
            for (i, j, p, rv, line) in bb.assigns():
                for rp in rvalue_places(rv):
                    if place_has_field(rp, "NewReno", "bytes_in_flight"):
                        kind = classify_write(bb, i, j) if place_has_field(p, "NewReno", "bytes_in_flight") else None
                        readers.append(bb.short)
        ctx.stats["R3.bodies_reachable_from_send_quota"] = len(seen)
        ctx.ob("R3", "%s|bytes_in_flight flows into the quota" % sq.short, bool(readers), sq.where(),
               "%d bodies reachable from send_quota; readers of NewReno.bytes_in_flight among them: %s — the quota is the "
               "pacer's token count (rate ~ cwnd/srtt) and never compares bytes in flight with the congestion window, so "
               "without acknowledgements the sender keeps adding in-flight bytes beyond the window" % (len(seen), readers or "none"))

    # ---------------------------------------------------------------- R4
    cw = [(b, i, j, p, rv, line) for (b, i, j, p, rv, line) in field_writes(prog, "NewReno", "congestion_window")
          if not b.short.endswith("NewReno::new")]
    ctx.floor("R4", "congestion_window write sites", len(cw), 4)
    for (b, i, j, p, rv, line) in cw:
        kind = classify_write(b, i, j)
        if kind[0] == "add":
            ok = b.short == NR + "::on_packet_acked"
            g = False
            for cblk in call_blocks(b, r"NewReno::in_congestion_recovery$"):
                oe = outcome_edges(b, cblk)
                if oe and b.dominates(cblk, i) and i not in b.reachable_from(list(oe["ok"]), avoid={cblk}):
                    g = True
            ctx.ob("R4", "%s|growth only outside recovery" % b.short, ok and g, b.where(line),
                   "congestion_window += .. in %s; dominated by the not-in-recovery edge of in_congestion_recovery: %s" % (b.short, g))
        elif kind[0] == "call" and kind[1].endswith("Ord::max"):
            if b.short == NR + "::on_congestion_event":
                g = False
                for cblk in call_blocks(b, r"NewReno::in_congestion_recovery$"):
                    oe = outcome_edges(b, cblk)
                    if oe and b.dominates(cblk, i) and i not in b.reachable_from(list(oe["ok"]), avoid={cblk}):
                        g = True
                ctx.ob("R4", "%s|reduction at most once per round trip" % b.short, g, b.where(line),
                       "reduction dominated by the not-in-recovery edge (no reaction if already in a recovery period): %s" % g)
            elif b.short == NR + "::on_packets_lost":
                # guarded by the persistent_lost argument
                g = False
                for sb in b.live_blocks():
                    t = b.term(sb)
                    if t["t"] == "switch":
                        pl = op_place(t["on"])
                        if pl and len(pl) == 1 and any(o == ("arg", 3) for o in b.trace_local(pl[0])):
                            tr, fa = switch_edges_on_local(b, sb)
                            if i in b.reachable_from(list(tr)) and i not in b.reachable_from(list(fa)):
                                g = True
                ctx.ob("R4", "%s|collapse only on persistent congestion" % b.short, g, b.where(line),
                       "window collapse guarded by the persistent_lost flag: %s" % g)
            else:
                ctx.ob("R4", "%s|unexpected window reduction" % b.short, False, b.where(line), "reduction outside the two RFC sites")
        else:
            ctx.ob("R4", "%s|unclassified congestion_window write" % b.short, False, b.where(line),
                   "write shape %s is neither `+=` nor `max(ssthresh, floor)`" % (kind[0],))

    # ---------------------------------------------------------------- R5
    pw = [(b, i, j, p, rv, line) for (b, i, j, p, rv, line) in field_writes(prog, "CongestionController", "pto_count")
          if not b.short.endswith("::init") and not b.short.endswith("::new")]
    ctx.floor("R5", "pto_count write sites", len(pw), 3)
    for (b, i, j, p, rv, line) in pw:
        ctx.touch(b)
        kind = classify_write(b, i, j)
        if kind[0] == "add":
            ok = b.short == CC + "::on_loss_detection_timeout" and const_int(kind[1]) == 1
            ctx.ob("R5", "%s|pto_count += 1" % b.short, ok, b.where(line), "increment by %s in %s" % (const_int(kind[1]), b.short))
        elif kind[0] == "const" and kind[1] == "0":
            if b.short == CC + "::on_ack_rcvd":
                g = False
                for cblk in call_blocks(b, r"peer_completed_address_validation$"):
                    oe = outcome_edges(b, cblk)
                    if oe and b.dominates(cblk, i) and i not in b.reachable_from(list(oe["err"]), avoid={cblk}):
                        g = True
                ctx.ob("R5", "%s|reset only if peer completed address validation" % b.short, g, b.where(line),
                       "pto_count = 0 guarded by peer_completed_address_validation(): %s (RFC 9002 A.7)" % g)
            elif b.short == CC + "::discard_epoch":
                ctx.ob("R5", "%s|reset on discarding a space" % b.short, True, b.where(line), "RFC 9002 A.11")
            else:
                ctx.ob("R5", "%s|unexpected pto_count reset" % b.short, False, b.where(line),
                       "pto_count reset outside on_ack_rcvd/discard_epoch: the PTO interval would stop doubling")
        else:
            ctx.ob("R5", "%s|unclassified pto_count write" % b.short, False, b.where(line), "write shape %s" % (kind[0],))
    # ---------------------------------------------------------------- R6
    ctx.rule("R6", "the loss-detection timer is re-armed wherever RFC 9002 ends a procedure with SetLossDetectionTimer(): "
                   "OnPacketNumberSpaceDiscarded, OnLossDetectionTimeout, OnAckReceived (after loss detection), OnPacketSent (in flight)")
    spec = [(CC + "::discard_epoch", r"PacketSpace::discard$"), (CC + "::on_loss_detection_timeout", None),
            (CC + "::on_ack_rcvd", r"PacketSpace::detect_lost_packets$"), (CC + "::on_packet_sent", r"Control::on_packet_sent_cc$|::on_packet_sent_cc$")]
    for fn, anchor_rx in spec:
        b = ctx.anchor("R6", fn)
        if not b:
            continue
        st = call_blocks(b, r"CongestionController::set_loss_detection_timer$")
        starts = call_blocks(b, anchor_rx) if anchor_rx else [0]
        ok = bool(st) and bool(starts)
        if ok:
            r = b.reachable_from([b.term(x)["to"] if anchor_rx and b.term(x).get("to") is not None else x for x in starts], avoid=set(st))
            ok = not (r & set(b.return_blocks()))
        ctx.ob("R6", "%s|ends with set_loss_detection_timer" % b.short, ok, b.where(),
               "every path from %s to return re-arms the timer (calls at %s): %s — without it ack-eliciting packets still in "
               "flight are neither declared lost nor probed" % ("the anchor call" if anchor_rx else "entry", st, ok))
    # ---------------------------------------------------------------- R8
    ctx.rule("R8", "once per round trip: the sent_time that OnCongestionEvent compares with congestion_recovery_start_time is a "
                   "packet's send time on every call chain (interprocedural backward slice of the argument) — never the current time")
    sites = prog.call_sites(r"NewReno::on_congestion_event$")
    ctx.floor("R8", "call sites of on_congestion_event", len(sites), 2)
    for (b, i, t) in sites:
        ctx.touch(b)
        if len(t["args"]) < 2:
            continue
        srcs = value_sources(prog, b, t["args"][1])
        nows = sorted(set("%s in %s" % (x[1], x[2]) for x in srcs if x[0] == "call" and re.search(r"[Ii]nstant::now$", x[1])))
        ends = sorted(set(("%s()" % x[1].split("::")[-1] if x[0] == "call" else ".".join(place_fields(x[1])) or "local") + " in " + x[2].split("::")[-1]
                          for x in srcs if x[0] in ("call", "place")))
        ctx.ob("R8", "%s|sent_time of the congestion event is not the current time" % b.short, bool(srcs) and not nows, b.where(t["line"]),
               "slice of the argument ends at: %s; Instant::now() among them: %s — in_congestion_recovery(sent_time) is "
               "`sent_time <= recovery_start`; the current time is always later, so every ECN-CE increase or loss report would "
               "shrink the window again within the same round trip" % (ends[:8], nows or "no"))
    # ---------------------------------------------------------------- R9
    ctx.rule("R9", "the recovery period starts when the congestion event is detected: congestion_recovery_start_time is written from "
                   "Instant::now() (RFC 9002 B.6), not from the triggering packet's send time — packets of the same flight sent "
                   "after the lost one must count as sent *during* recovery")
    ws9 = field_writes(prog, "NewReno", "congestion_recovery_start_time")
    ws9 = [w for w in ws9 if not w[0].short.endswith("::new")]
    ctx.floor("R9", "writes of congestion_recovery_start_time outside the constructor", len(ws9), 1)
    for (b, i, j, p, rv, line) in ws9:
        ctx.touch(b)
        ops = rvalue_operands(rv)
        srcs = []
        for o in ops:
            # look inside Some(..)
            q = op_place(o)
            if q is not None and len(q) == 1:
                for (bb, jj, rv2) in b.defs_of(q[0]):
                    if jj != "term" and rv2[0] == "agg":
                        for o2 in rv2[2]:
                            srcs += value_sources(prog, b, o2)
            srcs += value_sources(prog, b, o)
        if rv[0] == "agg":
            for o2 in rv[2]:
                srcs += value_sources(prog, b, o2)
        is_none = (rv[0] == "agg" and rv[1].get("variant") == "None") or any(
            jj != "term" and rv2[0] == "agg" and rv2[1].get("variant") == "None"
            for o in ops if op_place(o) is not None and len(op_place(o)) == 1 for (bb, jj, rv2) in b.defs_of(op_place(o)[0]))
        if is_none:
            continue
        from_now = any(x[0] == "call" and re.search(r"[Ii]nstant::now$", x[1]) for x in srcs)
        from_param = sorted(set(".".join(place_fields(x[1])) or "param" for x in srcs if x[0] == "place")) + \
            sorted(set("%s()" % x[1].split("::")[-1] for x in srcs if x[0] == "call" and not re.search(r"[Ii]nstant::now$", x[1])))
        ctx.ob("R9", "%s|recovery start := now" % b.short, from_now and not [x for x in srcs if x[0] == "call" and not re.search(r"[Ii]nstant::now$", x[1])] and
               not any(x[0] == "place" for x in srcs), b.where(line),
               "value written derives from Instant::now(): %s; other sources: %s — with the lost packet's send time as the start of "
               "recovery, every other loss (and ack) from the same flight is treated as a new round trip: the window shrinks again "
               "and also grows while in recovery" % (from_now, from_param or "none"))
    # ---------------------------------------------------------------- R10
    ctx.rule("R10", "RTT samples (RFC 9002 §5.1): Rtt::update is called from on_ack_rcvd only when the largest newly acknowledged packet "
                    "IS the frame's largest acknowledged (equality) and an ack-eliciting packet was newly acknowledged")
    oa = ctx.anchor("R10", "qcongestion::congestion::CongestionController::on_ack_rcvd")
    if oa:
        ups = [(i, t) for i, t in oa.calls() if re.search(r"rtt::(Arc)?Rtt::update$", callee(t))]
        ctx.floor("R10", "Rtt::update calls in on_ack_rcvd", len(ups), 1)
        for (i, t) in ups:
            eq_ok, ae_ok, seen = False, False, []
            for (sw, kind, text, truth) in deciders(oa, i):
                seen.append("%s:%s=%s" % (kind, text[-60:], truth))
                if kind == "cmp" and " Eq " in text and truth is True and "AckFrame::largest" in text:
                    eq_ok = True
                if kind == "cmp" and " Ne " in text and truth is False and "AckFrame::largest" in text:
                    eq_ok = True
            for sbk in oa.live_blocks():
                tt = oa.term(sbk)
                if tt["t"] == "switch" and oa.dominates(sbk, i):
                    pl = op_place(tt["on"])
                    if pl is not None:
                        for og in local_origins(oa, tt["on"]):
                            if og[0] == "place" and "include_ack_eliciting" in place_fields(og[1]):
                                tr, fa = switch_edges_on_local(oa, sbk)
                                if i not in oa.reachable_from(list(fa), avoid={sbk}):
                                    ae_ok = True
                        if "include_ack_eliciting" in place_fields(pl):
                            tr, fa = switch_edges_on_local(oa, sbk)
                            if i not in oa.reachable_from(list(fa), avoid={sbk}):
                                ae_ok = True
            ctx.ob("R10", "%s|RTT sampled only when largest newly acked == largest acknowledged" % oa.short, eq_ok, oa.where(t["line"]),
                   "deciding conditions of the update: %s — with `<=` (always true) a late ACK that fills a hole below an already "
                   "acknowledged largest yields a sample of now - send time of an old packet: smoothed_rtt, the loss threshold and "
                   "the PTO are inflated arbitrarily" % seen[:5])
            ctx.ob("R10", "%s|RTT sampled only when an ack-eliciting packet was newly acknowledged" % oa.short, ae_ok, oa.where(t["line"]),
                   "guarded by include_ack_eliciting: %s" % ae_ok)
    # ---------------------------------------------------------------- R11
    ctx.rule("R11", "the acknowledgement delay that is subtracted from an RTT sample is the value that was tested: in Rtt::update the "
                    "subtrahend of `latest_rtt - d` is the same variable as the d in the guard `latest_rtt >= min_rtt + d` (the value "
                    "clamped to max_ack_delay) — a peer-chosen delay never reaches a Duration subtraction unguarded")
    ru = ctx.anchor("R11", "qcongestion::rtt::Rtt::update")
    if ru:
        subs = [(i, t) for i, t in ru.calls() if re.search(r"Duration as core::ops::arith::Sub>::sub$", callee(t))]
        ctx.floor("R11", "Duration subtractions in Rtt::update", len(subs), 1)

        def root_of(o):
            q = op_place(o)
            if q is None or len(q) != 1:
                return None
            l = q[0]
            for _ in range(6):
                ds = ru.defs_of(l)
                if len(ds) != 1 or ds[0][1] == "term":
                    return l
                rv = ds[0][2]
                q2 = op_place(rv[1]) if rv[0] == "use" else None
                if q2 is None or len(q2) != 1:
                    return l
                l = q2[0]
            return l
        for (i, t) in subs:
            sub_root = root_of(t["args"][1])
            guard_roots = set()
            for gi, gt in ru.calls():
                if re.search(r"PartialOrd(<.*>)?>?::(ge|gt|le|lt)$", callee(gt)) and ru.dominates(gi, i) and len(gt["dest"]) == 1 and \
                        (runs_only_when(ru, gt["dest"][0], True, i) or runs_only_when(ru, gt["dest"][0], False, i)):
                    for a in gt["args"]:
                        for og in local_origins(ru, a):
                            if og[0] == "call" and re.search(r"Duration as core::ops::arith::Add>::add$", callee(og[2])):
                                for a2 in og[2]["args"]:
                                    guard_roots.add(root_of(a2))
            ctx.ob("R11", "%s|the subtracted delay is the guarded one" % ru.short, sub_root is not None and sub_root in guard_roots, ru.where(t["line"]),
                   "subtrahend variable _%s; variables added to min_rtt in the dominating comparison: %s — if the guard tests the clamped "
                   "delay and the subtraction uses the raw ACK Delay field, one ACK with a delay larger than the sample panics the "
                   "congestion controller (Duration underflow) while its mutex is held" % (sub_root, sorted(x for x in guard_roots if x is not None)))
    # ---------------------------------------------------------------- R7
    ctx.rule("R7", "a packet is declared lost only if it is still in flight and (sent before the time threshold or at least "
                   "packet_threshold packets older than the largest acknowledged): the state write is reachable only through "
                   "one of the two comparisons, and only packets filtered by `state == Inflight` are examined")
    if dl:
        cls = prog.with_closures(dl)
        # (a) the filter that precedes the decision compares the state with Inflight
        filt = False
        for c in cls:
            for i, t in c.calls():
                if callee(t).endswith("packets::State as core::cmp::PartialEq>::eq") and c.local_ty(0) == "bool":
                    for o in local_origins(c, t["args"][1]):
                        if o[0] == "const" and o[1] and "promoted" in o[1]:
                            pb = prog.bodies.get("%s::promoted[%d]" % (o[1]["promoted_of"], o[1]["promoted"]))
                            if pb and any(rv[0] == "agg" and rv[1].get("variant") == "Inflight" for (_, _, _, rv, _) in pb.assigns()):
                                filt = True
        ctx.ob("R7", "%s|only in-flight packets are examined" % dl.short, filt, dl.where(),
               "a filter closure compares SentPacket.state with State::Inflight: %s (an acknowledged packet is never declared lost)" % filt)
        # (b) the write state := Retransmitted is guarded by the two threshold comparisons
        for (b_, i, j, p_, rv, line) in field_writes(prog, "SentPacket", "state", bodies=cls):
            guards = []
            for sb in b_.live_blocks():
                t = b_.term(sb)
                if t["t"] != "switch" or not b_.dominates(sb, i) and not (i in b_.reachable_from(sb)):
                    continue
                pl = op_place(t["on"])
                if not pl or len(pl) != 1:
                    continue
                for (bb, jj, rv2) in b_.defs_of(pl[0]):
                    if jj == "term" and re.search(r"PartialOrd>?::lt$|cmp::PartialOrd::lt$", callee(rv2)):
                        if any(place_has_field(q, "SentPacket", "time_sent") for q in deep_places(b_, rv2["args"][0], 3)):
                            guards.append(("time", sb))
                    elif jj != "term" and rv2[0] == "bin" and rv2[1] in ("Ge", "Gt"):
                        guards.append(("count", sb))
            kinds = set(k for k, _ in guards)
            # without passing the true edge of one of the guards the write must be unreachable
            seen = {0}
            st = [0]
            gsb = {sb for _, sb in guards}
            while st:
                x = st.pop()
                for s2 in b_.succ(x):
                    if x in gsb:
                        tr, fa = switch_edges_on_local(b_, x)
                        if s2 in tr:
                            continue
                    if s2 not in seen:
                        seen.add(s2)
                        st.append(s2)
            ok = kinds == {"time", "count"} and i not in seen
            ctx.ob("R7", "%s|declared lost only through the time or packet threshold" % b_.short, ok, b_.where(line),
                   "guards found: %s; the write is unreachable unless one of them is true: %s" % (sorted(kinds), i not in seen))
    ctx.assume("Control trait objects are NewReno (the only workspace impl besides none); dyn calls matched by trait method name")
