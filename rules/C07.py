"""C07 — Packet numbers are never reused (structural clauses; the truncation arithmetic is not decided)."""
from rules.common import *

TECHNIQUE = ("static analysis: who-may-write of the sent-packet record, dominance (number consumed before the packet is "
             "protected), write=>record pairing over all macro-generated Package::dump impls, ADT facts (no Drop, no Clone)")
LEVEL_TEXT = ("Static analysis of the type-checked MIR of /repo: the next packet number is sent_packets.largest(); the "
              "record is extended only by NewPacketGuard::build_with_time/build_trivial (who-may-write), which consume the "
              "guard holding the journal lock; in both packet writers the build call dominates header protection/encryption; "
              "build_with_time skips the push only when no frame and no trivial mark was recorded; every frame encoder call "
              "in a Package::dump impl is dominated by record_frame on the same writer, and the packet writers' record_frame "
              "marks the guard on every path - so a packet carrying at least one frame always consumes its number; the guard "
              "has no Drop or Clone impl. Necessary structural conditions on all paths.")
NOT_DECIDED = ["that the sender's largest_acked is the one the receiver's window is centred on, and the bit-masking that forms the "
               "candidate in PacketNumber::decode: value-level (the A.2 width table of encode and the window operands of decode are "
               "decided, R4/R5)",
               "interleaving across paths beyond mutual exclusion by the journal mutex"]

SJ = "qrecovery::journal::sent"


def run(ctx):
    prog = ctx.prog
    ctx.rule("R1", "single source, consumed under one guard: pn = sent_packets.largest(); sent_packets is extended only by "
                   "build_with_time/build_trivial and advanced only by SentJournal::resize; the guard owns the MutexGuard, "
                   "is consumed by value, has no Clone")
    ctx.rule("R2", "sent => consumed: build_* dominates encrypt_and_protect_packet; build_with_time pushes unless (!trivial && "
                   "nframes == 0); every put_frame in a Package::dump is dominated by record_frame; PacketWriter::record_frame "
                   "marks the guard on every path")
    ctx.rule("R3", "abandoned assembly consumes nothing: NewPacketGuard has no Drop impl")
    ctx.rule("R5", "reconstruction window (RFC 9000 A.3): PacketNumber::decode moves the candidate by a FULL window (1 << nbits) and "
                   "decides to do so by comparing with expected -/+ HALF a window; operand classes extracted by def-use")
    ctx.rule("R6", "the truncation base is the peer's acknowledgement state: every call of PacketNumber::encode(pn, base) passes the journal's "
                   "largest_acked_pktno as base (not a local bookkeeping position such as the journal's front offset) and the next "
                   "packet number as pn")
    ctx.rule("R4", "truncation width table (RFC 9000 A.2): the guard under which PacketNumber::encode picks a w-bit encoding "
                   "bounds the distance d = pn - largest_acked by 2*d < 2^w (affine guard extraction + constant arithmetic)")

    # ---------------------------------------------------------------- R1
    muts = []
    for (cb, i, t) in prog.call_sites(r"IndexDeque::(push_back|insert|advance|resize|reset_offset|drain_to|extend|clear)$"):
        for o in local_origins(cb, t["args"][0]):
            if o[0] == "place" and place_has_field(o[1], "SentJournal", "sent_packets"):
                muts.append((cb.short, callee(t).split("::")[-1]))
    exp = {(SJ + "::NewPacketGuard::build_with_time", "push_back"), (SJ + "::NewPacketGuard::build_trivial", "push_back"),
           (SJ + "::SentJournal::resize", "advance")}
    ctx.ob("R1", "sent_packets writers", set(muts) == exp, "qrecovery/src/journal/sent.rs",
           "structural writers of SentJournal.sent_packets: %s (expected %s) — any other push/advance can hand out a "
           "number twice or skip the record of a sent packet" % (sorted(set(muts)), sorted(exp)))
    pn = ctx.anchor("R1", SJ + "::NewPacketGuard::pn")
    if pn:
        ok = any(callee(t).endswith("IndexDeque::largest") and
                 any(o[0] == "place" and place_has_field(o[1], "SentJournal", "sent_packets") for o in local_origins(pn, t["args"][0]))
                 for i, t in pn.calls())
        ctx.ob("R1", "%s|pn = sent_packets.largest()" % pn.short, ok, pn.where(), "next number is the length of the sent record: %s" % ok)
    g = prog.adts.get(SJ + "::NewPacketGuard")
    if g is None:
        ctx.ob("R1", "anchor:NewPacketGuard", False, "", "ADT not found")
    else:
        ftys = {f["n"]: f["ty"] for f in g["variants"][0]["fields"]}
        ctx.ob("R1", "NewPacketGuard owns the journal MutexGuard", "MutexGuard" in ftys.get("inner", ""), "qrecovery/src/journal/sent.rs",
               "field inner: %s" % ftys.get("inner"))
        clones = [im for im in prog.impls if "NewPacketGuard" in im["self_ty"] and im.get("trait_def") in ("core::clone::Clone", "core::marker::Copy")]
        ctx.ob("R1", "NewPacketGuard is not Clone/Copy", not clones, "qrecovery/src/journal/sent.rs", "Clone/Copy impls: %d" % len(clones))
        ctx.ob("R3", "NewPacketGuard has no Drop impl", g.get("drop") is None, "qrecovery/src/journal/sent.rs",
               "Drop impl: %s (a Drop that pushed would consume numbers for packets never sent; none means a dropped guard leaves largest() unchanged)" % g.get("drop"))
    for fn in ("build_with_time", "build_trivial"):
        b = ctx.anchor("R1", SJ + "::NewPacketGuard::" + fn)
        if b:
            ty = b.local_ty(1)
            ctx.ob("R1", "%s|consumes the guard by value" % b.short, not ty.startswith("&"), b.where(), "self type: %s" % ty[:60])

    # ---------------------------------------------------------------- R2
    n = 0
    for b in prog.find(r"^<qconnection::tx::\w+ as qbase::packet::io::AssemblePacket>::encrypt_and_protect_packet$"):
        ctx.touch(b)
        n += 1
        bu = call_blocks(b, r"NewPacketGuard::build_(with_time|trivial)$")
        en = call_blocks(b, r"AssemblePacket>::encrypt_and_protect_packet$|AssemblePacket::encrypt_and_protect_packet$")
        en = [e for e in en if e not in bu]
        ok = bool(bu) and bool(en) and all(any(b.dominates(x, e) for x in bu) for e in en)
        ctx.ob("R2", "%s|build dominates protection" % b.short, ok, b.where(),
               "build call blocks %s dominate the inner encrypt_and_protect_packet blocks %s: %s" % (bu, en, ok))
    ctx.floor("R2", "AssemblePacket impls", n, 2)
    b = ctx.anchor("R2", SJ + "::NewPacketGuard::build_with_time")
    if b:
        push = call_blocks(b, r"IndexDeque::push_back$")
        ctx.ob("R2", "%s|two push sites" % b.short, len(push) == 2, b.where(), "push_back call sites: %d" % len(push))
        # the no-push path must cross the false edge of `nframes > 0` (and of `trivial`)
        gate = None
        for sb in b.live_blocks():
            t = b.term(sb)
            if t["t"] != "switch":
                continue
            pl = op_place(t["on"])
            if pl and len(pl) == 1:
                for (bb, jj, rv) in b.defs_of(pl[0]):
                    if jj != "term" and rv[0] == "bin" and rv[1] in ("Gt", "Ne") and const_int(rv[3]) == 0:
                        gate = sb
        ok = False
        if gate is not None and push:
            tr, fa = switch_edges_on_local(b, gate)
            # without the false edge of the gate, every path to return pushes
            seen = {0}
            st = [0]
            while st:
                x = st.pop()
                if x in push:
                    continue
                for s in b.succ(x):
                    if x == gate and s in fa:
                        continue
                    if s not in seen:
                        seen.add(s)
                        st.append(s)
            ok = not (seen & set(b.return_blocks()))
        ctx.ob("R2", "%s|no push only when nothing was recorded" % b.short, ok, b.where(),
               "every path that returns without pushing passes the `nframes > 0` == false edge (and the trivial test): %s" % ok)
    # write => record in Package::dump impls
    nd = 0
    for b in prog.find(r"packet::io::Package<Target>>::dump$"):
        puts = [(i, t) for i, t in b.calls() if re.search(r"(WriteFrame<.*>|WriteDataFrame<.*>)>::(put_frame|put_data_frame)$", callee(t)) or
                re.search(r"io::Write(Data)?Frame::put_(data_)?frame$", callee_orig(t))]
        if not puts:
            continue
        nd += 1
        ctx.touch(b)
        recs = call_blocks(b, r"RecordFrame<.*>>::record_frame$|io::RecordFrame::record_frame$")
        ok = bool(recs) and all(any(b.dominates(r, i) for r in recs) for (i, t) in puts)
        ctx.ob("R2", "%s|put_frame dominated by record_frame" % b.short, ok, b.where(),
               "encoder calls %s, record_frame blocks %s" % ([i for i, _ in puts], recs))
    ctx.floor("R2", "Package::dump impls that encode a frame", nd, 34)
    for name, marks in (("<qconnection::tx::PacketWriter as qbase::packet::io::RecordFrame<F, D>>::record_frame", [r"NewPacketGuard::record_frame$", r"NewPacketGuard::record_trivial$"]),
                        ("<qconnection::tx::TrivialPacketWriter as qbase::packet::io::RecordFrame<F, D>>::record_frame", [r"NewPacketGuard::record_trivial$"])):
        b = ctx.anchor("R2", name)
        if b:
            mb = set()
            for rx in marks:
                mb |= set(call_blocks(b, rx))
            ok = bool(mb) and b.must_pass(b.return_blocks(), mb)
            ctx.ob("R2", "%s|marks the guard on every path" % b.short, ok, b.where(),
                   "every path to return passes record_frame/record_trivial on the clerk: %s" % ok)
    # ---------------------------------------------------------------- R4
    enc = ctx.anchor("R4", "qbase::packet::number::PacketNumber::encode")
    if enc:
        arms = agg_sites(enc, r"packet::number::PacketNumber$")
        ctx.floor("R4", "PacketNumber variants constructed by encode", len(arms), 3)
        for (i, j, rv, line) in arms:
            var = rv[1]["variant"]
            w = {"U8": 8, "U16": 16, "U24": 24, "U32": 32}.get(var)
            if w is None:
                continue
            g = guard_cmp(enc, i)
            ok, why = False, "no guarding comparison recognised"
            if g is not None:
                (sw, op, x, y) = g
                lx, ly = lin(enc, x), lin(enc, y)
                # normalise to  X (Lt|Le) C  with C constant
                if lx is not None and ly is not None and len(lx) == 1 and lx[0][0] == 0 and not (len(ly) == 1 and ly[0][0] == 0):
                    lx, ly, op = ly, lx, {"Gt": "Lt", "Ge": "Le", "Lt": "Gt", "Le": "Ge"}.get(op, op)
                if lx is None or ly is None or len(ly) != 1 or ly[0][0] != 0 or op not in ("Lt", "Le"):
                    why = "guard is not of the form  affine(d) < constant  (relation %s, forms %s / %s)" % (op, lx, ly)
                else:
                    C = ly[0][2]
                    feasible = True
                    bounds = []
                    bad_base = []
                    for (k, base, c) in lx:
                        if k == 0:
                            if not (c < C if op == "Lt" else c <= C):
                                feasible = False   # the arm cannot be taken at all
                        elif k > 0:
                            if base != "diff(arg:1,arg:2)":
                                bad_base.append(base)
                            dmax = (-(-(C - c) // k) - 1) if op == "Lt" else ((C - c) // k)
                            bounds.append(dmax)
                    if not feasible:
                        ok, why = True, "arm unreachable (constant member of the guard exceeds the threshold): vacuous"
                    elif bad_base:
                        why = "the bounded quantity is %s, not pn - largest_acked" % bad_base
                    elif not bounds:
                        why = "the guard does not bound pn - largest_acked"
                    else:
                        dmax = min(bounds)
                        ok = 2 * dmax < (1 << w)
                        why = "guard admits d <= %d; 2*d < 2^%d: %s" % (dmax, w, ok)
            ctx.ob("R4", "%s|%s chosen only when 2*(pn - largest_acked) < 2^%d" % (enc.short, var, w), ok, enc.where(line),
                   "%s — a narrower encoding than the window needs makes the receiver reconstruct a different packet number "
                   "(wrong nonce: the packet is undecryptable) once that many packets are unacknowledged" % why)
    # ---------------------------------------------------------------- R5
    dec = ctx.anchor("R5", "qbase::packet::number::PacketNumber::decode")
    if dec:
        def wclass(op, depth=6):
            """FULL = 1 << nbits ; HALF = FULL / 2 | FULL >> 1 ; else None"""
            p_ = op_place(op)
            if p_ is None or depth < 0:
                return None
            if len(p_) == 2 and p_[1] == ".0":
                ds_ = [rv_ for (bb_, jj_, rv_) in dec.defs_of(p_[0]) if jj_ != "term"]
            elif len(p_) == 1:
                ds_ = [rv_ for (bb_, jj_, rv_) in dec.defs_of(p_[0]) if jj_ != "term"]
            else:
                return None
            if len(ds_) != 1:
                return None
            rv_ = ds_[0]
            if rv_[0] == "use":
                return wclass(rv_[1], depth - 1)
            if rv_[0] == "cast":
                return wclass(rv_[2], depth - 1)
            if rv_[0] == "bin":
                o_ = rv_[1].replace("WithOverflow", "").replace("Unchecked", "")
                if o_ == "Shl" and const_int(rv_[2]) == 1 and op_place(rv_[3]) is not None:
                    return "FULL"
                if o_ == "Div" and const_int(rv_[3]) == 2 and wclass(rv_[2], depth - 1) == "FULL":
                    return "HALF"
                if o_ == "Shr" and const_int(rv_[3]) == 1 and wclass(rv_[2], depth - 1) == "FULL":
                    return "HALF"
            return None
        found = {}
        for i, t in dec.calls():
            if re.search(r"::checked_sub$", callee(t)) and len(t["args"]) == 2:
                found["lower bound: expected - ?"] = wclass(t["args"][1])
        for (i, j, p, rv, line) in dec.assigns():
            if rv[0] == "bin" and rv[1] in ("Gt", "Ge", "Lt", "Le"):
                for o in (rv[2], rv[3]):
                    q = op_place(o)
                    if q is None:
                        continue
                    for og in dec.trace_local(q[0]) if len(q) == 1 else [("place", q)]:
                        if og[0] == "place" and len(og[1]) == 2 and og[1][1] == ".0":
                            for (bb, jj, rv2) in dec.defs_of(og[1][0]):
                                if jj != "term" and rv2[0] == "bin" and rv2[1] == "AddWithOverflow":
                                    c = wclass(rv2[3]) or wclass(rv2[2])
                                    if c:
                                        found["upper bound: expected + ?"] = c
        for (i, j, p, rv, line) in dec.assigns():
            if p == [0] and rv[0] == "use":
                q = op_place(rv[1])
                if q is not None and len(q) == 2 and q[1] == ".0":
                    for (bb, jj, rv2) in dec.defs_of(q[0]):
                        if jj != "term" and rv2[0] == "bin" and rv2[1] in ("AddWithOverflow", "SubWithOverflow"):
                            found["adjust %s ?" % ("up: candidate +" if rv2[1].startswith("Add") else "down: candidate -")] = wclass(rv2[3]) or wclass(rv2[2])
        want = {"lower bound: expected - ?": "HALF", "upper bound: expected + ?": "HALF", "adjust up: candidate + ?": "FULL", "adjust down: candidate - ?": "FULL"}
        for k, v in want.items():
            ctx.ob("R5", "%s|%s is %s" % (dec.short, k, v), found.get(k) == v, dec.where(),
                   "operand class found: %s (FULL = 1 << nbits, HALF = FULL / 2) — with any other window a packet that arrives after a gap "
                   "at a window boundary is reconstructed one window off, fails authentication (wrong nonce) or is rejected as too old, "
                   "and so is every later packet of that space" % found.get(k))
    # ---------------------------------------------------------------- R6
    esites = prog.call_sites(r"packet::number::PacketNumber::encode$")
    ctx.floor("R6", "call sites of PacketNumber::encode", len(esites), 1)
    for (b, i, t) in esites:
        ctx.touch(b)
        r0 = sorted(value_roles(b, t["args"][0])) if len(t["args"]) > 0 else []
        r1 = sorted(value_roles(b, t["args"][1])) if len(t["args"]) > 1 else []
        ok = r1 == ["field:SentJournal.largest_acked_pktno"] and any("IndexDeque::largest" in r for r in r0)
        ctx.ob("R6", "%s|encode(next pn, largest acked by the peer)" % b.short, ok, b.where(t["line"]),
               "pn argument: %s; base argument: %s — the receiver centres its window on what it has received; only the peer's "
               "acknowledgements bound how far that can lag behind, so any other base under-counts the unacknowledged distance and "
               "picks an encoding that is too short" % (r0, r1))
    ctx.assume("IndexDeque::largest() == offset + len (value-level)")
    ctx.assume("the journal Mutex serialises assemblies of one space (std::sync::Mutex contract)")
