"""C18 — Peer transport parameters are validated and bound to on-wire connection IDs (structural clauses)."""
from rules.common import *

TECHNIQUE = ("static analysis: table extraction from the derive-generated validate/belong_to/value_type matches "
             "(evaluated bounds incl. promoted constants), cross-table agreement, edge-dominance on MIR")
LEVEL_TEXT = ("Static analysis of the type-checked MIR of /repo: the derive-generated ParameterId::validate is read as a "
              "bounds table and compared with RFC 9000 §18.2; belong_to is read as a role table; every id that "
              "authenticate_cids unwraps must be in the role's mandatory set; both writes of the READY state are "
              "dominated by a successful authenticate_cids()==true and followed by wake_all; the parameter map is "
              "written only through Parameters::set after belong_to and validate; the 0-RTT comparison list equals the "
              "RFC's; param errors map to TRANSPORT_PARAMETER_ERROR. Necessary structural conditions on all paths.")
NOT_DECIDED = ["negotiated_max_idle_timeout arithmetic (min of non-zero values)",
               "value-level behaviour of the parameter parser on arbitrary byte strings (C03 covers panic-freedom)",
               "that remembered parameters are compared numerically correctly for 0-RTT (only the id list is decided)"]

PID = "qbase::param::core::ParameterId"
VARINT_MAX = (1 << 62) - 1
# RFC 9000 §18.2 / §4.6 bounds: id -> (lo, hi)
RFC_BOUNDS = {
    "MaxUdpPayloadSize": (1200, 65527),
    "AckDelayExponent": (0, 20),
    "ActiveConnectionIdLimit": (2, VARINT_MAX),
    "InitialMaxStreamsBidi": (0, (1 << 60) - 1),   # RFC: <= 2^60; the repo's stream-id arithmetic needs <= 2^60-1
    "InitialMaxStreamsUni": (0, (1 << 60) - 1),
    "MaxAckDelay": (0, (1 << 14) - 1),             # milliseconds; "values of 2^14 or greater are invalid"
}
SERVER_ONLY = {"OriginalDestinationConnectionId", "StatelessResetToken", "PreferredAddress", "RetrySourceConnectionId"}
CLIENT_ONLY = {"ClientName"}
ZERO_RTT = {"InitialMaxData", "InitialMaxStreamDataBidiLocal", "InitialMaxStreamDataBidiRemote", "InitialMaxStreamDataUni",
            "InitialMaxStreamsBidi", "InitialMaxStreamsUni", "ActiveConnectionIdLimit", "MaxDatagramFrameSize"}


def promoted_of(prog, body, op):
    k = op_const(op)
    if k is None:
        p = op_place(op)
        if p is not None and len(p) == 1:
            for o in body.trace_local(p[0]):
                if o[0] == "const" and o[1] and "promoted" in o[1]:
                    k = o[1]
    if k is None or "promoted" not in k:
        return None
    return prog.bodies.get("%s::promoted[%d]" % (k["promoted_of"], k["promoted"]))


def run(ctx):
    prog = ctx.prog
    ctx.rule("R1", "bounds table of ParameterId::validate equals RFC 9000 §18.2 (max_udp_payload_size 1200..=65527, "
                   "ack_delay_exponent <= 20, active_connection_id_limit >= 2, initial_max_streams_* <= 2^60, max_ack_delay < 2^14)")
    ctx.rule("R2", "role table of belong_to: four server-only ids, one client-only id")
    ctx.rule("R3", "every id authenticate_cids unwraps for a role is in that role's required_parameters()")
    ctx.rule("R4", "READY is written only after authenticate_cids() == Ok(true), and followed by wake_all on every path")
    ctx.rule("R5", "Parameters.map is written only by Parameters::set, after belong_to()? and validate()?")
    ctx.rule("R6", "the 0-RTT comparison list equals the RFC's eight ids, each a VarInt with a default")
    ctx.rule("R8", "unknown parameter ids are skipped, not terminal: in parse_from_bytes the UnknownParameterId arm goes back to the "
                   "parsing loop, so every later parameter is still stored and validated")
    ctx.rule("R7", "param::Error maps to TRANSPORT_PARAMETER_ERROR")
    names = variant_names(prog, PID) or {}
    ctx.floor("R1", "ParameterId variants", len(names), 20)

    # ---------------------------------------------------------------- R1
    va = ctx.anchor("R1", PID + "::validate")
    bounds = {}
    if va:
        tb = arm_table(prog, va, PID)
        for vn, arm in (tb or {}).items():
            for b in arm["blocks"]:
                t = va.term(b)
                if t["t"] == "call" and callee(t).endswith("RangeInclusive::contains"):
                    pb = promoted_of(prog, va, t["args"][0])
                    if pb is not None:
                        for i, t2 in pb.calls():
                            if callee(t2).endswith("RangeInclusive::new"):
                                lo, hi = const_int(t2["args"][0]), const_int(t2["args"][1])
                                bounds[vn] = (lo, hi)
                    # the Err edge must be taken when not contained
                    oe = outcome_edges(va, b)
                    errs = oe and any(agg_sites_in(va, x, "Err") for x in va.reachable_from(list(oe["err"])) )
                    ctx.ob("R1", "%s|%s out-of-range -> Err" % (va.short, vn), bool(errs), va.where(),
                           "the not-contained edge of the range test reaches an Err(OutOfBounds) construction: %s" % bool(errs))
        ctx.stats["R1.bounds_table"] = {k: list(v) for k, v in bounds.items()}
        for vn, (lo, hi) in sorted(RFC_BOUNDS.items()):
            got = bounds.get(vn)
            ok = got is not None and got[0] == lo and (got[1] == hi or (vn.startswith("InitialMaxStreams") and got[1] in (hi, hi + 1)))
            ctx.ob("R1", "%s|bound %s" % (va.short, vn), ok, va.where(),
                   "validate() bounds %s to %s; RFC 9000 requires [%d, %d]%s" % (
                       vn, got, lo, hi, "" if got else " — no bound at all: any value up to 2^62-1 is accepted"))
        # MaxAckDelay is a Duration; its bound (< 2^14 ms) would have to be in its arm
        arm = (tb or {}).get("MaxAckDelay")
        has = arm is not None and any(va.term(b)["t"] == "call" and re.search(r"contains|::lt$|::le$|::gt$|::ge$", callee(va.term(b))) for b in arm["blocks"])
        ctx.ob("R1", "%s|bound MaxAckDelay" % va.short, has, va.where(),
               "validate() has a range test for max_ack_delay (RFC 9000 §18.2: values of 2^14 or greater are invalid): %s" % has)
        extra = sorted(set(bounds) - set(RFC_BOUNDS))
        ctx.note("R1: bounds present beyond the RFC table: %s" % extra)

    # ---------------------------------------------------------------- R2
    bt = ctx.anchor("R2", PID + "::belong_to")
    if bt:
        tb = arm_table(prog, bt, PID)
        role_tbl = {}
        for vn, arm in (tb or {}).items():
            req = None
            for b in sorted(arm["blocks"]):
                t = bt.term(b)
                if t["t"] == "call" and callee(t).endswith("PartialEq::ne"):
                    pb = promoted_of(prog, bt, t["args"][1])
                    if pb is not None:
                        for (i, j, p, rv, line) in pb.assigns():
                            if rv[0] == "agg" and rv[1]["k"] == "adt" and rv[1]["adt"].endswith("role::Role"):
                                want = rv[1]["variant"]
                                oe = outcome_edges(bt, b)
                                # `role != want` true edge must construct Err
                                if oe and any(agg_sites_in(bt, x, "Err") for x in bt.reachable_from(list(oe["ok"]))):
                                    req = want
            role_tbl[vn] = req
        # form-independent extraction: for every Err(..) construction, the parameter ids that can reach it (match arms or
        # `matches!` summaries) and the role comparison that guards it
        tests_, allv_ = enum_tests(prog, bt, PID)
        errs_ = [i for (i, j, rv, line) in agg_sites(bt, r"^core::result::Result$", "Err")]
        alt_tbl = {}
        for e_ in errs_:
            vs_ = enum_at(bt, tests_, allv_, e_)
            want_ = None
            for ci, ct in bt.calls():
                m_ = re.search(r"PartialEq(<.*>)?>?::(ne|eq)$", callee(ct))
                if not m_ or len(ct["dest"]) != 1 or len(ct["args"]) != 2:
                    continue
                pb_ = promoted_of(prog, bt, ct["args"][1]) or promoted_of(prog, bt, ct["args"][0])
                role_ = None
                if pb_ is not None:
                    for (i2, j2, p2, rv2, l2) in pb_.assigns():
                        if rv2[0] == "agg" and rv2[1]["k"] == "adt" and rv2[1]["adt"].endswith("role::Role"):
                            role_ = rv2[1]["variant"]
                if role_ and runs_only_when(bt, ct["dest"][0], m_.group(2) == "ne", e_):
                    want_ = role_
            if want_ and vs_ != allv_:
                for v_ in vs_:
                    alt_tbl[v_] = want_
        if alt_tbl:
            role_tbl = dict((vn, role_tbl.get(vn) or alt_tbl.get(vn)) for vn in set(role_tbl) | set(alt_tbl) | set(names.values()))
        ctx.stats["R2.role_table"] = {k: v for k, v in role_tbl.items() if v}
        for vn in sorted(names.values()):
            want = "Server" if vn in SERVER_ONLY else ("Client" if vn in CLIENT_ONLY else None)
            got = role_tbl.get(vn)
            ctx.ob("R2", "%s|%s" % (bt.short, vn), got == want, bt.where(),
                   "%s may be sent by %s (RFC 9000 §18.2 / extension: %s)" % (vn, got or "either role", want or "either role"))

    # ---------------------------------------------------------------- R3
    req = {}
    for role in ("Client", "Server"):
        b = ctx.anchor("R3", "<qbase::role::%s as qbase::role::RequiredParameters>::required_parameters" % role)
        if b:
            req[role] = set(rv[1]["variant"] for (i, j, p, rv, line) in b.assigns()
                            if rv[0] == "agg" and rv[1]["k"] == "adt" and rv[1]["adt"] == PID)
    ctx.stats["R3.required"] = {k: sorted(v) for k, v in req.items()}
    ac = ctx.anchor("R3", "qbase::param::Parameters::authenticate_cids")
    if ac and req:
        n = 0
        for i, t in ac.calls():
            if not callee(t).endswith("core::Parameters::get"):
                continue
            # followed by expect on its result?
            nxt = ac.term(t["to"]) if t.get("to") is not None else None
            unwrapped = nxt is not None and nxt["t"] == "call" and re.search(r"Option::(expect|unwrap)$", callee(nxt))
            side = None
            for o in local_origins(ac, t["args"][0]):
                if o[0] == "place":
                    fs = place_fields(o[1])
                    side = "Server" if "server" in fs else ("Client" if "client" in fs else None)
            ids = [o[1][1]["variant"] for o in local_origins(ac, t["args"][1]) if o[0] == "rv" and o[1][0] == "agg"]
            for pid in ids:
                n += 1
                ok = (not unwrapped) or (side in req and pid in req[side])
                ctx.ob("R3", "%s|expect(%s.%s) is mandatory" % (ac.short, side, pid), ok, ac.where(t["line"]),
                       "authenticate_cids unwraps %s of the %s parameters; required_parameters(%s) = %s — if the id is "
                       "not mandatory a peer omitting it panics the handshake task instead of failing with "
                       "TRANSPORT_PARAMETER_ERROR" % (pid, side, side, sorted(req.get(side, []))))
        ctx.floor("R3", "unwrapped connection-id parameters", n, 3)

    # ---------------------------------------------------------------- R4
    ws = [(b, i, j, p, rv, line) for (b, i, j, p, rv, line) in field_writes(prog, "param::Parameters", "state")]
    ready = []
    for (b, i, j, p, rv, line) in ws:
        kind = classify_write(b, i, j)
        if kind[0] == "const" and kind[1] == "3":
            ready.append((b, i, j, line))
        elif kind[0] != "const":
            # BitOr of the two named consts is const-folded by MIR building into an operand? handle named
            ready.append((b, i, j, line))
    ctx.floor("R4", "READY write sites", len(ready), 2)
    for (b, i, j, line) in ready:
        ctx.touch(b)
        acb = call_blocks(b, r"Parameters::authenticate_cids$")
        ok1 = any(guarded_by_ok(b, c, i) for c in acb)
        # the bool payload must be true
        ok2 = False
        for sb in b.live_blocks():
            t = b.term(sb)
            if t["t"] != "switch" or not b.dominates(sb, i):
                continue
            pl = op_place(t["on"])
            if not pl or len(pl) != 1:
                continue
            srcs = b.trace_local(pl[0])
            if any(o[0] == "place" and any(e in ("@Continue", "@Ok") for e in o[1][1:]) for o in srcs):
                tr, fa = switch_edges_on_local(b, sb)
                if i not in b.reachable_from(list(fa), avoid={sb}):
                    ok2 = True
        ctx.ob("R4", "%s|READY only after authenticate_cids()==Ok(true)" % b.short, ok1 and ok2, b.where(line),
               "state := READY at bb%d: on the Ok edge of authenticate_cids: %s; on the `true` edge of its value: %s" % (i, ok1, ok2))
        wk = call_blocks(b, r"Parameters::wake_all$")
        rets = set(b.return_blocks())
        r = b.reachable_from(i, avoid=set(wk))
        ok3 = bool(wk) and not (r & rets)
        ctx.ob("R4", "%s|READY followed by wake_all" % b.short, ok3, b.where(line),
               "every path from the READY write to a return passes wake_all (waiters of remote_ready are woken): %s" % ok3)

    # ---------------------------------------------------------------- R5
    ins = []
    for (b, i, t) in prog.call_sites(r"HashMap::insert$"):
        for o in local_origins(b, t["args"][0]):
            if o[0] == "place" and place_has_field(o[1], "param::core::Parameters", "map"):
                ins.append((b, i, t))
    ctx.floor("R5", "Parameters.map insert sites", len(ins), 1)
    for (b, i, t) in ins:
        ctx.touch(b)
        ok = b.short == "qbase::param::core::Parameters::set"
        g1 = any(guarded_by_ok(b, c, i) for c in call_blocks(b, r"ParameterId::belong_to$"))
        g2 = any(guarded_by_ok(b, c, i) for c in call_blocks(b, r"ParameterId::validate$"))
        ctx.ob("R5", "%s|map.insert after belong_to()? and validate()?" % b.short, ok and g1 and g2, b.where(t["line"]),
               "insert in %s; guarded by belong_to Ok: %s, validate Ok: %s" % (b.short, g1, g2))
    # other writers of the field (direct assignment / get_mut / entry)
    for (b, i, t) in prog.call_sites(r"HashMap::(entry|get_mut|remove|clear|extend|retain|drain)$"):
        for o in local_origins(b, t["args"][0]):
            if o[0] == "place" and place_has_field(o[1], "param::core::Parameters", "map"):
                ctx.ob("R5", "%s|unexpected mutation of Parameters.map" % b.short, False, b.where(t["line"]),
                       "%s on the parameter map bypasses Parameters::set" % callee(t))
    for root in ("qbase::param::core::Parameters::parse_from_bytes", "qbase::param::io::<impl qbase::param::core::Parameters>::parse_from_bytes"):
        pass
    for b in prog.find(r"Parameters>?::(parse_from_bytes|try_from_remembered_bytes)$"):
        ctx.touch(b)
        ok = bool(calls(b, r"core::Parameters::set$"))
        ctx.ob("R5", "%s|stores through Parameters::set" % b.short, ok, b.where(), "decoded parameters are stored with set(): %s" % ok)
    ctx.floor("R5", "parameter decoders", len(prog.find(r"Parameters>?::(parse_from_bytes|try_from_remembered_bytes)$")), 2)

    # ---------------------------------------------------------------- R6
    z = ctx.anchor("R6", "qbase::param::core::<impl qbase::param::core::Parameters>::is_0rtt_accepted") or None
    if z is None:
        zz = prog.find(r"::is_0rtt_accepted$")
        z = zz[0] if len(zz) == 1 else None
        if z is not None:
            ctx.obs = [o for o in ctx.obs if "anchor:" not in o.key or "is_0rtt_accepted" not in o.key]
    if z:
        ids = set(rv[1]["variant"] for (i, j, p, rv, line) in z.assigns()
                  if rv[0] == "agg" and rv[1]["k"] == "adt" and rv[1]["adt"] == PID)
        ctx.ob("R6", "%s|id list" % z.short, ids == ZERO_RTT, z.where(),
               "ids compared for 0-RTT: %s; RFC 9000 §7.4.1 + RFC 9221: %s" % (sorted(ids), sorted(ZERO_RTT)))
        # direction of the comparison: remembered (self) <= new (argument)
        dirs = []
        for c in prog.with_closures(z):
            ups = {u[0]: u[1] for u in c.get("upvars", [])}
            for (i, j, p_, rv, line) in c.assigns():
                if rv[0] == "bin" and rv[1] in ("Le", "Ge", "Lt", "Gt"):
                    continue
            for i, t in c.calls():
                if re.search(r"cmp::PartialOrd>?::(le|ge|lt|gt)$", callee(t)) or re.search(r"PartialOrd::(le|ge|lt|gt)$", callee_orig(t) or ""):
                    def side(o):
                        caps = c.get("captures", [])
                        names = set()
                        ops = [o]
                        # projection-sensitive step through `(a, b)` tuples: `_t.k...` -> k-th operand of the aggregate
                        for pl in deep_places(c, o, 2):
                            if len(pl) >= 2 and isinstance(pl[1], str) and pl[1][1:].split(":")[0].isdigit():
                                k = int(pl[1][1:].split(":")[0])
                                for (bb_, jj_, rv_) in c.defs_of(pl[0]):
                                    if jj_ != "term" and rv_[0] == "agg" and rv_[1]["k"] == "tuple" and k < len(rv_[2]):
                                        ops = [rv_[2][k]]
                        for oo in ops:
                            for pl in deep_places(c, oo, 6):
                                if pl[0] == 1:
                                    idx = [e[1:].split(":")[0] for e in pl[1:] if isinstance(e, str) and e.startswith(".")]
                                    if idx and idx[0].isdigit() and int(idx[0]) < len(caps):
                                        names.add(caps[int(idx[0])]["var"])
                        return names
                    dirs.append((callee(t).split("::")[-1], side(t["args"][0]), side(t["args"][1])))
        ok = any(op == "le" and "self" in a and "server_params" in b_ and "self" not in b_ for (op, a, b_) in dirs) or \
            any(op == "ge" and "server_params" in a and "self" in b_ and "server_params" not in b_ for (op, a, b_) in dirs)
        ctx.ob("R6", "%s|remembered <= new" % z.short, ok, z.where(),
               "comparison(s): %s — 0-RTT is honoured only when every remembered limit is <= the server's new one" % [(op, sorted(a), sorted(b_)) for op, a, b_ in dirs])
        vt = ctx.anchor("R6", PID + "::value_type")
        dv = ctx.anchor("R6", PID + "::default_value")
        if vt and dv:
            tvt = arm_table(prog, vt, PID) or {}
            tdv = arm_table(prog, dv, PID) or {}
            for pid in sorted(ids):
                a = tvt.get(pid)
                isvar = a is not None and any(va_.startswith("agg:VarInt") for va_ in a["ret"])
                d = tdv.get(pid)
                hasdef = d is not None and any(r.startswith("agg:Some") for r in d["ret"])
                ctx.ob("R6", "%s|%s is VarInt with default" % (z.short, pid), isvar and hasdef, z.where(),
                       "value_type=%s default=%s (otherwise the `unreachable!` arm of is_0rtt_accepted is live)" % (
                           sorted(a["ret"]) if a else None, sorted(d["ret"]) if d else None))

    # ---------------------------------------------------------------- R7
    fr = prog.find(r"<impl core::convert::From<qbase::param::error::Error> for qbase::error::(QuicError|Error)>::from$")
    ctx.floor("R7", "From<param::Error> impls", len(fr), 1)
    for b in fr:
        ctx.touch(b)
        kinds = set(rv[1]["variant"] for (i, j, p, rv, line) in b.assigns()
                    if rv[0] == "agg" and rv[1]["k"] == "adt" and rv[1]["adt"].endswith("error::ErrorKind"))
        deleg = [callee(t) for i, t in b.calls() if "From<" in callee(t) and "param::error::Error" in callee(t)]
        ok = kinds == {"TransportParameter"} or (not kinds and deleg)
        ctx.ob("R7", "%s|TransportParameter" % b.short, ok, b.where(), "ErrorKind constructed: %s delegates: %s" % (sorted(kinds), deleg))
    # ---------------------------------------------------------------- R8
    pf = [b for b in prog.bodies.values() if re.search(r"param::io::<impl qbase::param::Parameters<R>>::parse_from_bytes$|param::Parameters<R>::parse_from_bytes$", b.short)]
    pf = pf or [b for b in prog.bodies.values() if b.short.endswith("::parse_from_bytes") and b.crate == "qbase" and "param" in b.short and b.kind != "closure"]
    ctx.floor("R8", "parse_from_bytes bodies", len(pf), 1)
    for b in pf[:2]:
        ctx.touch(b)
        heads = sorted(set(v for u in b.live_blocks() for v in b.succ(u) if b.dominates(v, u)))
        tb = arm_table(prog, b, "qbase::param::error::Error") or {}
        arm = tb.get("UnknownParameterId")
        # the loop the arm sits in: a head that dominates the arm (later loops of the function do not count)
        encl = [h for h in heads if arm is not None and b.dominates(h, arm["target"]) and arm["target"] in b.reachable_from(h)]
        ok = arm is not None and bool(encl) and any(h in b.reachable_from(arm["target"]) for h in encl)
        ctx.ob("R8", "%s|the unknown-id arm continues the loop" % b.short, ok, b.where(),
               "arm for Error::UnknownParameterId found: %s; a loop head is reachable from it: %s — with `break` everything after a GREASE or "
               "extension parameter is neither stored nor validated: out-of-range or role-inappropriate values are accepted and legal "
               "ones silently replaced by defaults" % (arm is not None, ok))


def agg_sites_in(body, blk, variant):
    for s in body.stmts(blk):
        if s[0] == "=" and s[2][0] == "agg" and s[2][1]["k"] == "adt" and s[2][1]["adt"] == "core::result::Result" and s[2][1]["variant"] == variant:
            return True
    return False
