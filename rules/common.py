"""Helpers shared by the per-property rule modules."""
import re
from collections import deque

from qlint.facts import (op_place, op_const, const_int, place_fields, place_field_adts, place_has_field,
                         place_last_field, place_str, rvalue_operands, rvalue_places, short_name)


# --------------------------------------------------------------------------- callee names

def callee(t):
    """generic-free pretty name of the resolved callee (or of the trait method when unresolved)"""
    f = t["f"]
    n = f.get("name") or f.get("orig_name") or ""
    return short_name(n)


def callee_orig(t):
    return short_name(t["f"].get("orig_name") or "")


def calls(body, rx, orig=False):
    """(block, term) of every live call whose resolved (or original trait-method) name matches regex `rx`"""
    r = re.compile(rx)
    out = []
    for i, t in body.calls():
        if r.search(callee(t)) or r.search(callee_orig(t)):
            out.append((i, t))
    return out


def call_blocks(body, rx):
    return [i for i, _ in calls(body, rx)]


# --------------------------------------------------------------------------- Result / Option outcome edges

_PASS = re.compile(r"(Try>::branch$|::map_err$|::map$|::ok_or$|::ok_or_else$|::and_then$|::inspect_err$|::inspect$|"
                   r"Into<.*>>::into$|From<.*>>::from$|::ok$|::as_ref$|::as_mut$|::copied$|::cloned$|::transpose$)")
_BOOL_OK = re.compile(r"::(is_ok|is_some)$")
_BOOL_ERR = re.compile(r"::(is_err|is_none)$")


def _kind_of_ty(ty):
    ty = ty.lstrip("&").strip()
    if ty.startswith("mut "):
        ty = ty[4:]
    if ty.startswith("core::result::Result<"):
        return "result"
    if ty.startswith("core::ops::ControlFlow<") or ty.startswith("core::ops::control_flow::ControlFlow<"):
        return "cf"
    if ty.startswith("core::option::Option<"):
        return "option"
    if ty.startswith("core::task::Poll<") or ty.startswith("core::task::poll::Poll<"):
        return "poll"
    if ty == "bool":
        return "bool"
    return None


def outcome_edges(body, call_blk, max_steps=40):
    """Follow the value returned by the call in `call_blk` to the first branch on it.
    Returns {'ok': set(blocks), 'err': set(blocks), 'switch': blk} or None when the result is never tested.
    ok  = Ok / Continue / Some / true-of-is_ok ;  err = Err / Break / None."""
    t = body.term(call_blk)
    if t["t"] != "call" or t.get("to") is None or len(t["dest"]) != 1:
        return None
    tracked = {t["dest"][0]: _kind_of_ty(body.local_ty(t["dest"][0]))}
    boolmap = {}  # local -> ('ok'|'err') meaning when true
    if tracked[t["dest"][0]] == "bool":
        boolmap[t["dest"][0]] = "ok"  # for bool-returning calls: ok = true edge, err = false edge
    discs = {}  # disc local -> tracked local
    seen = set()
    dq = deque([(t["to"], 0)])
    while dq:
        b, d = dq.popleft()
        if b in seen or d > max_steps:
            continue
        seen.add(b)
        for s in body.stmts(b):
            if s[0] != "=":
                continue
            dst, rv = s[1], s[2]
            if len(dst) != 1:
                continue
            if rv[0] == "use":
                p = op_place(rv[1])
                if p is not None and len(p) == 1 and p[0] in tracked:
                    tracked[dst[0]] = tracked[p[0]]
                elif p is not None and len(p) == 1 and p[0] in boolmap:
                    boolmap[dst[0]] = boolmap[p[0]]
            elif rv[0] == "ref":
                p = rv[2]
                if len(p) == 1 and p[0] in tracked:
                    tracked[dst[0]] = tracked[p[0]]
            elif rv[0] == "disc":
                p = rv[1]
                base = p[0]
                if base in tracked and all(e == "*" for e in p[1:]):
                    discs[dst[0]] = base
            elif rv[0] == "un" and rv[1] == "Not":
                p = op_place(rv[2])
                if p is not None and len(p) == 1 and p[0] in boolmap:
                    boolmap[dst[0]] = "err" if boolmap[p[0]] == "ok" else "ok"
        tt = body.term(b)
        k = tt["t"]
        if k == "switch":
            p = op_place(tt["on"])
            if p is not None and len(p) == 1:
                l = p[0]
                if l in discs:
                    kind = tracked[discs[l]]
                    ok, err = set(), set()
                    for v, tgt in tt["cases"]:
                        v = int(v)
                        if kind in ("result", "cf"):
                            (ok if v == 0 else err).add(tgt)
                        elif kind == "option":
                            (err if v == 0 else ok).add(tgt)
                        elif kind == "poll":
                            (ok if v == 0 else err).add(tgt)
                    # the otherwise edge
                    vals = set(int(v) for v, _ in tt["cases"])
                    other = tt["else"]
                    if body.term(other)["t"] != "unreachable":
                        if kind in ("result", "cf", "poll"):
                            (err if 0 in vals else ok).add(other)
                        elif kind == "option":
                            (ok if 0 in vals else err).add(other)
                    return {"ok": ok, "err": err, "switch": b}
                if l in boolmap:
                    ok, err = set(), set()
                    for v, tgt in tt["cases"]:
                        truth = int(v) != 0
                        m = boolmap[l]
                        if not truth:
                            m = "err" if m == "ok" else "ok"
                        (ok if m == "ok" else err).add(tgt)
                    m = boolmap[l]  # else edge = true when only case 0 listed
                    vals = set(int(v) for v, _ in tt["cases"])
                    if 0 in vals:
                        (ok if m == "ok" else err).add(tt["else"])
                    else:
                        (err if m == "ok" else ok).add(tt["else"])
                    return {"ok": ok, "err": err, "switch": b}
            for s2 in body.succ(b):
                dq.append((s2, d + 1))
        elif k == "call":
            a0 = tt["args"][0] if tt["args"] else None
            p = op_place(a0) if a0 else None
            name = callee(tt)
            if p is not None and len(p) == 1 and p[0] in tracked and len(tt["dest"]) == 1:
                if _PASS.search(name) or (re.search(r"result::Result(<.*>|::<.*>)?::or$", name) and len(tt["args"]) == 2 and any(
                        og[0] == "rv" and og[1][0] == "agg" and og[1][1].get("variant") == "Err" for og in local_origins(body, tt["args"][1]))):
                    # `r.or(Err(x))` keeps the outcome of r
                    kd = _kind_of_ty(body.local_ty(tt["dest"][0])) or tracked[p[0]]
                    tracked[tt["dest"][0]] = kd
                elif _BOOL_OK.search(name):
                    boolmap[tt["dest"][0]] = "ok"
                elif _BOOL_ERR.search(name):
                    boolmap[tt["dest"][0]] = "err"
            if tt.get("to") is not None:
                dq.append((tt["to"], d + 1))
        else:
            for s2 in body.succ(b):
                dq.append((s2, d + 1))
    return None


def guarded_by_ok(body, call_blk, target_blk):
    """True iff `target_blk` can only execute after the call in `call_blk` returned its success value:
    the call dominates the target and the target is not reachable from the failure edge without re-running the call."""
    if not body.dominates(call_blk, target_blk) or call_blk == target_blk:
        return False
    oe = outcome_edges(body, call_blk)
    if oe is None or not oe["err"]:
        return False
    r = body.reachable_from(list(oe["err"]), avoid={call_blk})
    return target_blk not in r


def guarded_by_err_exit(body, call_blk):
    """True iff the failure edge of the call in `call_blk` leaves the function without reaching any later 'work':
    returns the set of blocks reachable from the error edge (for reporting) or None if the result is untested"""
    oe = outcome_edges(body, call_blk)
    if oe is None:
        return None
    return body.reachable_from(list(oe["err"]), avoid={call_blk})


# --------------------------------------------------------------------------- bool-condition edges

def switch_edges_on_local(body, blk):
    """for a `switch` terminator on a bool local: (true_targets, false_targets)"""
    t = body.term(blk)
    if t["t"] != "switch":
        return None
    tr, fa = set(), set()
    vals = set()
    for v, tgt in t["cases"]:
        vals.add(int(v))
        (fa if int(v) == 0 else tr).add(tgt)
    if 0 in vals:
        tr.add(t["else"])
    else:
        fa.add(t["else"])
    return tr, fa


def edge_dominates(body, src, dst, target):
    """every path entry -> target uses the CFG edge src->dst"""
    # remove the edge by searching reachability with a custom successor function
    seen = {0}
    dq = deque([0])
    while dq:
        b = dq.popleft()
        if b == target:
            return False
        for s in body.succ(b):
            if b == src and s == dst:
                continue
            if s not in seen:
                seen.add(s)
                dq.append(s)
    return target in body.live_blocks()


# --------------------------------------------------------------------------- field writes

def field_writes(prog, adt, field, bodies=None):
    """every MIR assignment whose destination's last field projection is `adt.field`.
    yields (body, block, idx, place, rvalue, line)"""
    out = []
    for b in (bodies if bodies is not None else prog.bodies.values()):
        for (i, j, p, rv, line) in b.assigns():
            n, a = place_last_field(p)
            if n == field and a is not None and (a == adt or a.endswith("::" + adt)):
                # must be the *last* projection apart from derefs
                tail = [e for e in p[1:] if e != "*"]
                if tail and tail[-1].startswith("." + field + ":"):
                    out.append((b, i, j, p, rv, line))
        # writes through a closure capture: `(*_1.N) = ..` where capture N is `..var.field`
        caps = b.get("captures") if b.kind == "closure" else None
        if caps:
            par = prog.bodies.get(b.get("parent"))
            for (i, j, p0, rv, line) in b.assigns():
                p = p0
                if p[0] != 1 and len(p) >= 2 and p[1] == "*":
                    # `_16 = _1.0; (*_16) = ..` : a copy of the captured reference
                    for (bb_, jj_, rv_) in b.defs_of(p[0]):
                        if jj_ != "term" and rv_[0] == "use":
                            q_ = op_place(rv_[1])
                            if q_ is not None and q_[0] == 1 and len(q_) == 2:
                                p = q_ + p[1:]
                if p[0] != 1 or len(p) < 2 or not (isinstance(p[1], str) and p[1].startswith(".")):
                    continue
                idx = p[1][1:].split(":")[0]
                if not idx.isdigit() or int(idx) >= len(caps):
                    continue
                if any(isinstance(e, str) and e.startswith(".") for e in p[2:]):
                    continue
                cp = caps[int(idx)]["place"].lstrip("*")
                if not cp.endswith("." + field):
                    continue
                # the captured variable's type in the parent must be the ADT
                okty = False
                if par is not None:
                    for l in par.locals_named(caps[int(idx)]["var"]):
                        if adt.split("::")[-1] in par.local_ty(l):
                            okty = True
                if okty:
                    out.append((b, i, j, p0, rv, line))
    return out


def classify_write(body, blk, idx):
    """shape of an assignment `F = rv`:
    ('add'|'sub', other operand) for F = F (+|-) x  (through *WithOverflow tuples),
    ('const', v) | ('max', ..) | ('other', rv)"""
    s = body.stmts(blk)[idx]
    dst, rv = s[1], s[2]
    if rv[0] == "use":
        k = op_const(rv[1])
        if k is not None:
            return ("const", k.get("v"))
        p = op_place(rv[1])
        if p is not None and len(p) == 2 and p[1] in (".0", ".1"):
            # tuple of a checked op: find its definition
            for (b2, j2, rv2) in body.defs_of(p[0]):
                if j2 != "term" and rv2[0] == "bin" and rv2[1] in ("AddWithOverflow", "SubWithOverflow", "MulWithOverflow"):
                    a, b = rv2[2], rv2[3]
                    kind = {"AddWithOverflow": "add", "SubWithOverflow": "sub", "MulWithOverflow": "mul"}[rv2[1]]
                    pa, pb = op_place(a), op_place(b)
                    if pa == dst:
                        return (kind, b)
                    if pb == dst:
                        return (kind, a)
                    return ("arith:" + kind, rv2)
        if p is not None and len(p) == 1:
            # follow one whole-local copy / call
            for (b2, j2, rv2) in body.defs_of(p[0]):
                if j2 == "term":
                    return ("call", callee(rv2))
                if rv2[0] == "bin":
                    pa, pb = op_place(rv2[2]), op_place(rv2[3])
                    if rv2[1] in ("Add", "Sub", "AddUnchecked", "SubUnchecked"):
                        kind = "add" if rv2[1].startswith("Add") else "sub"
                        if pa == dst:
                            return (kind, rv2[3])
                        if pb == dst:
                            return (kind, rv2[2])
                    return ("bin:" + rv2[1], rv2)
            return ("copy", p)
        return ("copy", p)
    if rv[0] == "bin":
        pa, pb = op_place(rv[2]), op_place(rv[3])
        if rv[1] in ("Add", "Sub"):
            kind = "add" if rv[1] == "Add" else "sub"
            if pa == dst:
                return (kind, rv[3])
            if pb == dst:
                return (kind, rv[2])
        return ("bin:" + rv[1], rv)
    return ("other", rv)


def atomic_ops_on_field(prog, adt, field, bodies=None):
    """calls to atomic methods whose receiver is (a ref to) `adt.field`; yields (body, block, term, method)"""
    out = []
    rx = re.compile(r"core::sync::atomic::Atomic\w*::(\w+)$")
    for b in (bodies if bodies is not None else prog.bodies.values()):
        for i, t in b.calls():
            m = rx.search(callee(t))
            if not m or not t["args"]:
                continue
            p = op_place(t["args"][0])
            if p is None:
                continue
            hit = False
            if place_has_field(p, adt, field):
                hit = True
            elif len(p) == 1:
                for o in b.trace_local(p[0]):
                    if o[0] == "place" and place_has_field(o[1], adt, field):
                        hit = True
            if hit:
                out.append((b, i, t, m.group(1)))
    return out


# --------------------------------------------------------------------------- misc

def panics_blocks(body):
    """blocks whose terminator is a diverging call (panic entry points) or an assert"""
    out = []
    for i in body.live_blocks():
        t = body.term(i)
        if t["t"] == "call" and t.get("to") is None:
            out.append(i)
    return out


def is_panic_call(t):
    if t["t"] != "call" or t.get("to") is not None:
        return False
    n = callee(t)
    return bool(re.search(r"(core|std)::(panicking|option|result|slice|str)::|begin_panic|unwrap_failed|expect_failed|"
                          r"panic_fmt|panic_display|unreachable_display|panic_explicit|core::panic", n)) or True


def const_args(body, t):
    """(index, const dict) for constant arguments of a call"""
    return [(i, op_const(a)) for i, a in enumerate(t["args"]) if op_const(a) is not None]


def local_origins(body, op, depth=12):
    """origins of an operand (see Body.trace_local)"""
    p = op_place(op)
    if p is None:
        return [("const", op_const(op))]
    if len(p) == 1:
        return body.trace_local(p[0], depth)
    # projections: trace the base as well but report the place
    return [("place", p)]


def agg_sites(body, adt_rx, variant=None):
    """(block, idx, rvalue, line) for aggregates constructing `adt` (regex on path) [variant]"""
    r = re.compile(adt_rx)
    out = []
    for (i, j, p, rv, line) in body.assigns():
        if rv[0] == "agg" and rv[1]["k"] == "adt" and r.search(rv[1]["adt"]):
            if variant is None or rv[1]["variant"] == variant:
                out.append((i, j, rv, line))
    return out


def constructs_variant(body, adt_rx, variant):
    """blocks where an enum variant value is produced: aggregates, or constant operands (fieldless variants
    are constants in MIR) - for fieldless we look for named/printed constants"""
    return [i for (i, j, rv, line) in agg_sites(body, adt_rx, variant)]


def named_consts_used(body):
    """set of named constants mentioned anywhere in the body"""
    out = set()
    for (i, j, p, rv, line) in body.assigns():
        for o in rvalue_operands(rv):
            k = op_const(o)
            if k and "named" in k:
                out.add(k["named"])
    for i, t in body.calls():
        for a in t["args"]:
            k = op_const(a)
            if k and "named" in k:
                out.add(k["named"])
    return out


# --------------------------------------------------------------------------- match-shaped functions as tables

def variant_names(prog, adt_name):
    a = prog.adts.get(adt_name)
    if a is None:
        return None
    names = [v["n"] for v in a["variants"]]
    discrs = a.get("discrs")
    if discrs:
        return {int(d): n for d, n in zip(discrs, names)}
    return {i: n for i, n in enumerate(names)}


def arm_table(prog, body, adt_name, switch_blk=None):
    """Read a function that starts with `match <enum place>` as a table.
    Returns {variant name: arm} where arm = {'blocks', 'ret' (set of const values | 'dyn:<origin>'),
    'self_writes' (set of variant names assigned through a deref place), 'calls' (set of callee names)}.
    The switch is the first live switch on a discriminant of type `adt_name` (or `switch_blk`)."""
    names = variant_names(prog, adt_name)
    if names is None:
        return None
    sb = switch_blk
    if sb is None:
        for b in body._rpo():
            t = body.term(b)
            if t["t"] != "switch":
                continue
            p = op_place(t["on"])
            if p is None or len(p) != 1:
                continue
            ok = False
            for (bb, j, rv) in body.defs_of(p[0]):
                if j != "term" and rv[0] == "disc":
                    ty = rv[2] if len(rv) > 2 else body.local_ty(rv[1][0])
                    ty = re.sub(r"^&(mut )?('\w+ )?", "", ty)
                    if ty == adt_name or ty.startswith(adt_name + "<"):
                        ok = True
            if ok:
                sb = b
                break
    if sb is None:
        return None
    t = body.term(sb)
    targets = {}
    listed = set()
    for v, tgt in t["cases"]:
        vn = names.get(int(v), "?%s" % v)
        targets[vn] = tgt
        listed.add(int(v))
    other = t["else"]
    if body.term(other)["t"] != "unreachable":
        for d, vn in names.items():
            if d not in listed:
                targets[vn] = other
    # the switch block is a barrier: inside a loop every arm would otherwise reach every other arm
    regions = {vn: body.reachable_from(tgt, avoid={sb}) for vn, tgt in targets.items()}
    distinct = set(targets.values())
    table = {}
    for vn, tgt in targets.items():
        # blocks specific to this arm: not reachable from an arm with a different target
        others = set()
        for vn2, tgt2 in targets.items():
            if tgt2 != tgt:
                others |= regions[vn2]
        mine = regions[vn] - others if len(distinct) > 1 else regions[vn]
        ret, writes, cs = set(), set(), set()
        for b in sorted(mine):
            for s in body.stmts(b):
                if s[0] != "=":
                    continue
                dst, rv = s[1], s[2]
                if dst == [0]:
                    if rv[0] == "use":
                        k = op_const(rv[1])
                        if k is not None and "v" in k:
                            ret.add(k["v"])
                        else:
                            pl = op_place(rv[1])
                            orig = local_origins(body, rv[1]) if pl is not None else []
                            desc = []
                            for o in orig:
                                if o[0] == "place":
                                    desc.append(".".join(place_fields(o[1])) or "place")
                                elif o[0] == "call":
                                    desc.append("call:" + callee(o[2]))
                                elif o[0] == "const" and o[1] and "v" in o[1]:
                                    ret.add(o[1]["v"])
                                    continue
                                else:
                                    desc.append(o[0])
                            for x in desc:
                                ret.add("dyn:" + x)
                    elif rv[0] == "agg" and rv[1]["k"] == "adt":
                        ret.add("agg:" + rv[1]["variant"])
                    else:
                        ret.add("dyn:" + rv[0])
                elif len(dst) >= 2 and dst[1] == "*" and len(dst) == 2:
                    if rv[0] == "use":
                        pl = op_place(rv[1])
                        if pl is not None and len(pl) == 1:
                            for (b2, j2, rv2) in body.defs_of(pl[0]):
                                if j2 != "term" and rv2[0] == "agg" and rv2[1]["k"] == "adt":
                                    writes.add(rv2[1]["variant"])
                    elif rv[0] == "agg" and rv[1]["k"] == "adt":
                        writes.add(rv[1]["variant"])
            tt = body.term(b)
            if tt["t"] == "call":
                cs.add(callee(tt))
                if tt["dest"] == [0]:
                    ret.add("dyn:call:" + callee(tt))
        table[vn] = {"blocks": mine, "ret": ret, "self_writes": writes, "calls": cs, "target": tgt}
    return table


# --------------------------------------------------------------------------- deep origins

def deep_places(body, op, depth=8, _seen=None):
    """all places an operand's value may derive from, looking through copies, refs, projections of locals and
    *every argument* of intermediate calls (over-approximation used to associate a value with the field it came from)"""
    out = []
    seen = _seen if _seen is not None else set()
    work = [(op, depth)]
    while work:
        o, d = work.pop()
        p = op_place(o)
        if p is None:
            continue
        key = (tuple(p), )
        if key in seen or d < 0:
            continue
        seen.add(key)
        out.append(p)
        base = p[0]
        for og in body.trace_local(base, 6):
            if og[0] == "place":
                if (tuple(og[1]),) not in seen:
                    work.append((["c", og[1]], d - 1))
            elif og[0] == "call":
                for a in og[2]["args"]:
                    work.append((a, d - 1))
            elif og[0] == "rv":
                for a in rvalue_operands(og[1]):
                    work.append((a, d - 1))
                for pl in rvalue_places(og[1]):
                    work.append((["c", pl], d - 1))
    return out


def places_have_field(places, adt, field):
    return any(place_has_field(p, adt, field) for p in places)


def deep_aggs(body, op, depth=8):
    """ADT aggregates (adt path, variant) an operand's value may derive from (through copies, call arguments, rvalues)"""
    out = set()
    seen = set()
    work = [(op, depth)]
    while work:
        o, d = work.pop()
        p = op_place(o)
        if p is None or d < 0:
            continue
        if p[0] in seen:
            continue
        seen.add(p[0])
        for (bb, jj, rv) in body.defs_of(p[0]):
            if jj == "term":
                for a in rv["args"]:
                    work.append((a, d - 1))
                continue
            if rv[0] == "agg":
                if rv[1]["k"] == "adt":
                    out.add((rv[1]["adt"], rv[1]["variant"]))
                for a in rv[2]:
                    work.append((a, d - 1))
            else:
                for a in rvalue_operands(rv):
                    work.append((a, d - 1))
                for pl in rvalue_places(rv):
                    work.append((["c", pl], d - 1))
    return out


def guarded_increase(body, blk, idx):
    """is the assignment `F = x` at (blk, idx) reachable only through the true edge of a comparison x > F (or F < x)?"""
    s = body.stmts(blk)[idx]
    dst, rv = s[1], s[2]
    if rv[0] != "use":
        return False
    val = rv[1]
    for sb in body.live_blocks():
        t = body.term(sb)
        if t["t"] != "switch" or not body.dominates(sb, blk):
            continue
        pl = op_place(t["on"])
        if not pl or len(pl) != 1:
            continue
        for (bb, jj, rv2) in body.defs_of(pl[0]):
            if jj == "term" or rv2[0] != "bin" or rv2[1] not in ("Gt", "Lt", "Ge", "Le"):
                continue

            def is_field(o):
                q = op_place(o)
                if q is None:
                    return False
                if q == dst:
                    return True
                return any(og[0] == "place" and og[1] == dst for og in local_origins(body, o))

            def is_val(o):
                q, v = op_place(o), op_place(val)
                if q is None or v is None:
                    return False
                if q == v:
                    return True
                ra = set(tuple(x[1]) if x[0] == "place" else (x[0], x[1] if x[0] == "arg" else id(x)) for x in local_origins(body, o))
                rb = set(tuple(x[1]) if x[0] == "place" else (x[0], x[1] if x[0] == "arg" else id(x)) for x in local_origins(body, val))
                if ra & rb:
                    return True
                # copies of the same local
                da = [r[1] for (_, j_, r) in body.defs_of(q[0]) if j_ != "term" and r[0] == "use"] if len(q) == 1 else []
                return any(op_place(x) == v for x in da)
            tr, fa = switch_edges_on_local(body, sb)
            good = None
            if rv2[1] == "Gt" and is_val(rv2[2]) and is_field(rv2[3]):
                good = tr
            elif rv2[1] == "Lt" and is_field(rv2[2]) and is_val(rv2[3]):
                good = tr
            elif rv2[1] == "Le" and is_val(rv2[2]) and is_field(rv2[3]):
                good = fa
            elif rv2[1] == "Ge" and is_field(rv2[2]) and is_val(rv2[3]):
                good = fa
            if good is None:
                continue
            bad = (tr | fa) - good
            if blk in body.reachable_from(list(good)) and blk not in body.reachable_from(list(bad), avoid={sb}):
                return True
    return False


# --------------------------------------------------------------------------- decision roots

def idom(body, b):
    d = body.dominators().get(b)
    if not d or len(d) <= 1:
        return None
    best = None
    for x in d:
        if x == b:
            continue
        if best is None or len(body.dominators()[x]) > len(body.dominators()[best]):
            best = x
    return best


def decision_root(body, blk):
    """first switch of the condition chain that guards `blk` (for `if a && b { blk }` the switch on `a`)"""
    cur = idom(body, blk)
    # climb to the nearest dominating switch
    while cur is not None and body.term(cur)["t"] != "switch":
        cur = idom(body, cur)
    if cur is None:
        return None
    root = cur
    while True:
        preds = body.pred(root)
        if len(preds) != 1:
            break
        p = preds[0]
        # skip straight-line blocks between chained conditions (calls evaluating the next operand)
        q = p
        hops = 0
        while body.term(q)["t"] in ("call", "goto") and len(body.pred(q)) == 1 and hops < 6:
            q = body.pred(q)[0]
            hops += 1
        if body.term(q)["t"] == "switch" and body.dominates(q, root) and len(body.succ(q)) == 2:
            # q belongs to the same `a && b` chain only if its *other* edge joins the chain's skip edge
            def resolve(x):
                for _ in range(8):
                    if body.stmts(x) and any(s_[0] == "=" and s_[1] != [0] and s_[2][0] != "use" for s_ in body.stmts(x)):
                        break
                    tt = body.term(x)
                    if tt["t"] == "goto":
                        x = tt["to"]
                    else:
                        break
                return x
            # the edge of q that leads to root
            toward = [s_ for s_ in body.succ(q) if root in body.reachable_from(s_, avoid={q})]
            other = [s_ for s_ in body.succ(q) if s_ not in toward]
            skip = [s_ for s_ in body.succ(root) if blk not in body.reachable_from(s_, avoid={root})]
            if other and skip and resolve(other[0]) == resolve(skip[0]):
                root = q
                continue
        break
    return root


def ok_return_sites(body):
    """blocks that build the success value returned by the function (Result::Ok / Poll::Ready(Ok) ...)"""
    return [i for (i, j, rv, line) in agg_sites(body, r"^core::result::Result$", "Ok")]


# --------------------------------------------------------------------------- comparison operands

def _lf(p):
    f, a = place_last_field(p)
    return "%s.%s" % (a.split("::")[-1].split("<")[0] if a else "?", f)


def value_roles(body, op, depth=4):
    """canonical description of where an operand's value comes from: a set of
    'field:<name>' | 'call:<Type::method>' | 'sum(<a>+<b>)' | 'arg:<n>' | 'const:<v>'"""
    out = set()
    p = op_place(op)
    if p is None:
        k = op_const(op)
        out.add("const:%s" % (k.get("v") if isinstance(k, dict) else k))
        return out
    if len(p) > 1 and not (len(p) == 2 and p[1] in (".0", ".1")):
        out.add("field:%s" % _lf(p))
        return out
    origins = body.trace_local(p[0]) if len(p) == 1 else [("place", p)]
    for og in origins:
        if og[0] == "arg":
            out.add("arg:%d" % og[1])
        elif og[0] == "const":
            k = og[1]
            out.add("const:%s" % (k.get("v") if isinstance(k, dict) else k))
        elif og[0] == "call":
            nm = short_name(callee(og[2]))
            out.add("call:%s" % "::".join(nm.split("::")[-2:]))
        elif og[0] == "place":
            q = og[1]
            if len(q) == 2 and q[1] == ".0" and depth > 0:
                # checked arithmetic: (_t = AddWithOverflow(a, b)).0
                hit = False
                for (bb, jj, rv) in body.defs_of(q[0]):
                    if jj != "term" and rv[0] == "bin" and rv[1].endswith("WithOverflow"):
                        hit = True
                        a = "|".join(sorted(value_roles(body, rv[2], depth - 1)))
                        b_ = "|".join(sorted(value_roles(body, rv[3], depth - 1)))
                        nm = {"AddWithOverflow": "sum", "SubWithOverflow": "diff", "MulWithOverflow": "prod"}.get(rv[1], rv[1])
                        out.add("%s(%s,%s)" % (nm, a, b_) if nm != "sum" else "sum(%s)" % "+".join(sorted([a, b_])))
                if not hit:
                    out.add("field:%s" % _lf(q))
            else:
                out.add("field:%s" % _lf(q))
        elif og[0] == "rv":
            rv = og[1]
            if rv[0] == "bin" and depth > 0:
                a = "|".join(sorted(value_roles(body, rv[2], depth - 1)))
                b_ = "|".join(sorted(value_roles(body, rv[3], depth - 1)))
                if rv[1] in ("Add", "AddUnchecked"):
                    out.add("sum(%s)" % "+".join(sorted([a, b_])))
                else:
                    out.add("%s(%s,%s)" % (rv[1].lower(), a, b_))
            else:
                out.add("rv:%s" % rv[0])
    return out


_NEG = {"Gt": "Le", "Ge": "Lt", "Lt": "Ge", "Le": "Gt", "Eq": "Ne", "Ne": "Eq"}
_SWAP = {"Gt": "Lt", "Ge": "Le", "Lt": "Gt", "Le": "Ge", "Eq": "Eq", "Ne": "Ne"}


def guard_cmp(body, blk):
    """the comparison that immediately guards `blk`, normalised to the relation that HOLDS when blk runs:
    (switch_blk, op, lhs_operand, rhs_operand) or None.  Switches that do not decide whether blk runs (both edges
    reach it: logging macros, cleanup flags) are skipped while climbing the dominator chain."""
    cur = idom(body, blk)
    hops = 0
    while cur is not None and hops < 64:
        hops += 1
        if body.term(cur)["t"] != "switch":
            cur = idom(body, cur)
            continue
        g = _guard_at(body, cur, blk)
        if g == "skip":
            cur = idom(body, cur)
            continue
        return g
    return None


def guard_chain(body, blk, limit=12):
    """every comparison up the dominator chain that decides whether `blk` runs, nearest first, each normalised to the
    relation that holds when blk runs: [(switch_blk, op, lhs, rhs)].  Switches on non-comparisons (call results,
    discriminants) and non-deciding switches are skipped."""
    out = []
    cur = idom(body, blk)
    hops = 0
    while cur is not None and hops < 200 and len(out) < limit:
        hops += 1
        if body.term(cur)["t"] == "switch":
            g = _guard_at(body, cur, blk)
            if g not in ("skip", None):
                out.append(g)
        cur = idom(body, cur)
    return out


def guard_texts(body, blk, cls=None):
    """canonical texts 'A OP B' (role sets mapped through `cls`, smaller side first) of guard_chain"""
    res = []
    for (sw, op, a, b) in guard_chain(body, blk):
        ra = "|".join(sorted((cls(r) if cls else r) for r in value_roles(body, a)))
        rb = "|".join(sorted((cls(r) if cls else r) for r in value_roles(body, b)))
        if ra > rb:
            ra, rb, op = rb, ra, _SWAP[op]
        res.append("%s %s %s" % (ra, op, rb))
    return res


def _guard_at(body, cur, blk):
    t = body.term(cur)
    succs = body.succ(cur)
    reach = [s_ for s_ in succs if body.term(s_)["t"] != "unreachable" and (s_ == blk or blk in body.reachable_from(s_, avoid={cur}))]
    live = [s_ for s_ in succs if body.term(s_)["t"] != "unreachable"]
    if len(reach) == len(live) and len(live) > 1:
        return "skip"     # every edge reaches blk: this switch does not guard it
    pl = op_place(t["on"])
    if pl is None or len(pl) != 1:
        return None
    neg = False
    loc = pl[0]
    for _ in range(4):
        ds = [(bb, jj, rv) for (bb, jj, rv) in body.defs_of(loc) if jj != "term"]
        if len(ds) != 1:
            return None
        rv = ds[0][2]
        if rv[0] == "un" and rv[1] == "Not":
            q = op_place(rv[2])
            if q is None or len(q) != 1:
                return None
            loc = q[0]
            neg = not neg
            continue
        if rv[0] == "use":
            q = op_place(rv[1])
            if q is None or len(q) != 1:
                return None
            loc = q[0]
            continue
        if rv[0] == "bin" and rv[1] in _NEG:
            tr, fa = switch_edges_on_local(body, cur)
            on_true = blk in body.reachable_from(list(tr), avoid={cur}) and blk not in body.reachable_from(list(fa), avoid={cur})
            on_false = blk in body.reachable_from(list(fa), avoid={cur}) and blk not in body.reachable_from(list(tr), avoid={cur})
            if not (on_true or on_false):
                return None
            holds = on_true != neg
            op = rv[1] if holds else _NEG[rv[1]]
            return (cur, op, rv[2], rv[3])
        return None
    return None


def cmp_canon(body, g):
    """canonical, order-independent text of a guard comparison: 'A OP B' with the lexicographically smaller role set first"""
    (sw, op, a, b) = g
    ra = "|".join(sorted(value_roles(body, a)))
    rb = "|".join(sorted(value_roles(body, b)))
    if ra > rb:
        ra, rb, op = rb, ra, _SWAP[op]
    return "%s %s %s" % (ra, op, rb)


def bool_switches(body, local):
    """switch blocks that branch on the bool in `local`, following copies and `!`: [(switch_blk, negated)]"""
    vals = {local: False}
    changed = True
    while changed:
        changed = False
        for (i, j, p, rv, line) in body.assigns():
            if len(p) != 1 or p[0] in vals:
                continue
            if rv[0] == "use":
                q = op_place(rv[1])
                if q is not None and len(q) == 1 and q[0] in vals:
                    vals[p[0]] = vals[q[0]]
                    changed = True
            elif rv[0] == "un" and rv[1] == "Not":
                q = op_place(rv[2])
                if q is not None and len(q) == 1 and q[0] in vals:
                    vals[p[0]] = not vals[q[0]]
                    changed = True
    out = []
    for sb in body.live_blocks():
        t = body.term(sb)
        if t["t"] == "switch":
            q = op_place(t["on"])
            if q is not None and len(q) == 1 and q[0] in vals:
                out.append((sb, vals[q[0]]))
    return out


def runs_only_when(body, local, truth, target):
    """`target` executes only on paths where the bool `local` had value `truth` at some switch on it that dominates target"""
    for (sb, neg) in bool_switches(body, local):
        if not body.dominates(sb, target) or sb == target:
            continue
        tr, fa = switch_edges_on_local(body, sb)
        want, other = (tr, fa) if (truth != neg) else (fa, tr)
        if want and target not in body.reachable_from(list(other), avoid={sb}) and target in body.reachable_from(list(want), avoid={sb}):
            return True
    return False


# --------------------------------------------------------------------------- interprocedural value sources

def value_sources(prog, body, op, depth=5, _seen=None):
    """backward slice of an operand along copies / refs / casts / Deref-like calls and, for parameters, into the
    matching argument of every caller (resolved, CHA and closure edges).  Returns a list of
    ('call', callee name, body.short, line) | ('place', place, body.short) | ('const', k, body.short) | ('rv', kind, body.short).
    Values produced by other calls or computations are *ends* of the slice (reported, not followed)."""
    seen = _seen if _seen is not None else set()
    out = []
    p = op_place(op)
    if p is None:
        return [("const", op_const(op), body.short)]
    origins = body.trace_local(p[0]) if all(e == "*" for e in p[1:]) else [("place", p)]
    for og in origins:
        if og[0] == "arg":
            n = og[1]
            key = (body.id, n)
            if key in seen or depth <= 0:
                continue
            seen.add(key)
            for (cid, kind, blk) in prog.callers().get(body.id, []):
                caller = prog.bodies.get(cid)
                if caller is None or kind == "ref":
                    continue
                t = caller.term(blk)
                if t["t"] != "call" or len(t["args"]) < n:
                    continue
                out += value_sources(prog, caller, t["args"][n - 1], depth - 1, seen)
        elif og[0] == "call":
            out.append(("call", callee(og[2]), body.short, og[2].get("line")))
        elif og[0] == "place":
            q = og[1]
            out.append(("place", q, body.short))
            # a projection of a plain local (tuple field, enum payload): keep slicing the local it was built from
            if not any(e == "*" for e in q[1:]) and (body.id, "l", q[0]) not in seen:
                seen.add((body.id, "l", q[0]))
                for (bb, jj, rv) in body.defs_of(q[0]):
                    if jj == "term":
                        out.append(("call", callee(rv), body.short, rv.get("line")))
                        for a in rv["args"]:
                            if depth > 0:
                                out += value_sources(prog, body, a, depth - 1, seen)
                    elif rv[0] in ("agg", "use", "cast", "ref"):
                        for a in rvalue_operands(rv):
                            if depth > 0:
                                out += value_sources(prog, body, a, depth - 1, seen)
        elif og[0] == "const":
            out.append(("const", og[1], body.short))
        elif og[0] == "rv":
            out.append(("rv", og[1][0], body.short))
    return out


# --------------------------------------------------------------------------- linear forms over one unknown

def lin(body, op, depth=10):
    """affine abstraction of an integer operand:  [(k, base, c), ...]  meaning the value is max over the list of
    k*base + c, where base is a canonical role string (None for a constant).  Returns None when the operand is not
    affine in at most one unknown.  Understands copies, integer casts, checked/unchecked + - * << with constants,
    and core::cmp::max."""
    if depth < 0:
        return None
    ci = const_int(op)
    if ci is not None:
        return [(0, None, ci)]
    p = op_place(op)
    if p is None:
        return None

    def unknown():
        return [(1, "|".join(sorted(value_roles(body, op))), 0)]
    if len(p) == 2 and p[1] == ".0":
        ds = [rv for (bb, jj, rv) in body.defs_of(p[0]) if jj != "term"]
        if len(ds) == 1 and ds[0][0] == "bin" and ds[0][1].endswith("WithOverflow"):
            return _lin_bin(body, ds[0][1][:-12], ds[0][2], ds[0][3], depth, unknown)
        return unknown()
    if len(p) != 1:
        if all(e == "*" for e in p[1:]):
            # deref of a reference to a local: follow the reference
            ds = [rv for (bb, jj, rv) in body.defs_of(p[0]) if jj != "term"]
            if ds and all(d[0] == "ref" and len(d[2]) == 1 for d in ds) and len(set(d[2][0] for d in ds)) == 1:
                return lin(body, ["c", [ds[0][2][0]]], depth - 1)
        return unknown()
    if 1 <= p[0] <= body.argc:
        if not [1 for (bb, jj, rv) in body.defs_of(p[0])]:
            return [(1, "arg:%d" % p[0], 0)]
    ds = body.defs_of(p[0])
    if len(ds) != 1:
        return unknown()
    (bb, jj, rv) = ds[0]
    if jj == "term":
        nm = callee(rv)
        if re.search(r"cmp::max$|cmp::Ord::max$|Ord>::max$", nm) and len(rv["args"]) == 2:
            a, b_ = lin(body, rv["args"][0], depth - 1), lin(body, rv["args"][1], depth - 1)
            if a is None or b_ is None:
                return None
            return a + b_
        return unknown()
    if rv[0] == "use":
        return lin(body, rv[1], depth - 1)
    if rv[0] == "cast":
        return lin(body, rv[2], depth - 1)
    if rv[0] == "bin":
        return _lin_bin(body, rv[1].replace("Unchecked", ""), rv[2], rv[3], depth, unknown)
    return unknown()


def _lin_bin(body, op, x, y, depth, unknown):
    a, b_ = lin(body, x, depth - 1), lin(body, y, depth - 1)
    if a is None or b_ is None or len(a) != 1 or len(b_) != 1:
        return unknown() if op not in ("Add", "Sub", "Mul", "Shl") else None
    (ka, ba, ca), (kb, bb, cb) = a[0], b_[0]
    if op == "Add":
        if ka and kb and ba != bb:
            return unknown()
        return [(ka + kb, ba or bb, ca + cb)]
    if op == "Sub":
        if ka and kb:
            if ba == bb:
                return [(ka - kb, ba if ka != kb else None, ca - cb)]
            if ca == 0 and cb == 0 and ka == 1 and kb == 1:
                return [(1, "diff(%s,%s)" % (ba, bb), 0)]
            return unknown()
        return [(ka - kb, ba or bb, ca - cb)]
    if op == "Mul":
        if ka and kb:
            return unknown()
        if kb == 0:
            return [(ka * cb, ba, ca * cb)]
        return [(kb * ca, bb, cb * ca)]
    if op == "Shl":
        if ka == 0 and kb == 0:
            return [(0, None, ca << cb)]
        if kb == 0:
            return [(ka << cb, ba, ca << cb)]
        return unknown()
    return unknown()


def deciders(body, blk, limit=16):
    """all switches up the dominator chain that decide whether `blk` runs, with what they branch on:
    [(switch_blk, kind, text, truth)]  kind in call|cmp|disc|other; text = callee name / canonical comparison / adt;
    truth = the outcome under which blk runs (True/False for bools, variant index list for discriminants)"""
    out = []
    cur = idom(body, blk)
    hops = 0
    while cur is not None and hops < 200 and len(out) < limit:
        hops += 1
        t = body.term(cur)
        if t["t"] == "switch":
            succs = body.succ(cur)
            live = [s_ for s_ in succs if body.term(s_)["t"] != "unreachable"]
            reach = [s_ for s_ in live if s_ == blk or blk in body.reachable_from(s_, avoid={cur})]
            if not (len(reach) == len(live) and len(live) > 1):
                pl = op_place(t["on"])
                kind, text, truth = "other", "", None
                if pl is not None and len(pl) == 1:
                    loc, neg = pl[0], False
                    for _ in range(4):
                        ds = body.defs_of(loc)
                        if len(ds) != 1:
                            break
                        (bb, jj, rv) = ds[0]
                        if jj == "term":
                            kind, text = "call", callee(rv)
                            break
                        if rv[0] == "un" and rv[1] == "Not" and op_place(rv[2]) and len(op_place(rv[2])) == 1:
                            loc, neg = op_place(rv[2])[0], not neg
                            continue
                        if rv[0] == "use" and op_place(rv[1]) and len(op_place(rv[1])) == 1:
                            loc = op_place(rv[1])[0]
                            continue
                        if rv[0] == "bin":
                            kind = "cmp"
                            text = "%s %s %s" % ("|".join(sorted(value_roles(body, rv[2]))), rv[1], "|".join(sorted(value_roles(body, rv[3]))))
                            break
                        if rv[0] == "disc":
                            kind, text = "disc", body.local_ty(rv[1][0])
                            break
                        break
                    if kind in ("call", "cmp"):
                        tr, fa = switch_edges_on_local(body, cur)
                        on_true = any(s_ in tr for s_ in reach)
                        truth = on_true != neg
                    elif kind == "disc":
                        truth = sorted(int(v) for v, tgt in t["cases"] if tgt in reach)
                out.append((cur, kind, text, truth))
        cur = idom(body, cur)
    return out


# --------------------------------------------------------------------------- tests on an enum value (match arms, matches!)

def enum_tests(prog, body, adt):
    """tests of values of enum `adt` in body: discriminant switches (one test per listed variant) and `matches!`-style
    bool summaries (every arm only sets one bool local to a constant): [{variants:set, true:set, false:set, blk}]"""
    names = variant_names(prog, adt) or {}
    allv = set(names.values())
    out = []
    tail = adt.split("::")[-1]
    for (i, j, p, rv, line) in body.assigns():
        if rv[0] != "disc" or len(p) != 1:
            continue
        ty = body.local_ty(rv[1][0])
        if tail not in ty:
            continue
        for sbk in body.live_blocks():
            tt = body.term(sbk)
            if tt["t"] != "switch" or op_place(tt["on"]) != p:
                continue
            listed = {}
            for v, tgt in tt["cases"]:
                listed.setdefault(tgt, set()).add(names.get(int(v), "?"))
            else_live = body.term(tt["else"])["t"] != "unreachable"
            arms = dict((tgt, vs) for tgt, vs in listed.items())
            if else_live:
                arms.setdefault(tt["else"], set()).update(allv - set(x for vs in listed.values() for x in vs))
            for tgt, vs in arms.items():
                others = set(t2 for t2 in arms if t2 != tgt)
                out.append({"variants": set(vs), "true": {tgt}, "false": others, "blk": sbk})
            flag = {}
            for tgt, vs in arms.items():
                for s_ in body.stmts(tgt):
                    if s_[0] == "=" and len(s_[1]) == 1 and s_[2][0] == "use" and op_const(s_[2][1]) is not None and \
                            op_const(s_[2][1]).get("ty") == "bool":
                        flag.setdefault(s_[1][0], {})[tgt] = const_int(s_[2][1]) == 1
            for loc, m in flag.items():
                if set(m) != set(arms):
                    continue
                true_vs = set(x for tgt, v in m.items() if v for x in arms[tgt])
                for (sb2, neg) in bool_switches(body, loc):
                    tr, fa = switch_edges_on_local(body, sb2)
                    if neg:
                        tr, fa = fa, tr
                    out.append({"variants": true_vs, "true": set(tr), "false": set(fa), "blk": sb2})
    return out, allv


def enum_at(body, tests, allv, blk):
    """variants the tested value may have when blk runs"""
    may = set(allv)
    for t in tests:
        sb = t["blk"]
        if not body.dominates(sb, blk) or sb == blk:
            continue
        via_true = blk in t["true"] or blk in body.reachable_from(list(t["true"]), avoid={sb})
        via_false = blk in t["false"] or blk in body.reachable_from(list(t["false"]), avoid={sb})
        if via_true and not via_false:
            may &= t["variants"]
        elif via_false and not via_true:
            may -= t["variants"]
    return may
