"""C01 — Stream data is delivered reliably: retransmission wiring and end-of-stream typestate (structural clauses)."""
from rules.common import *

TECHNIQUE = ("static analysis: feedback-wiring completeness (variant -> sink table over the loss/ack handlers' match arms, "
             "sinks must reach the buffer-recolouring primitive and a send wake-up through the call graph), EOF typestate by "
             "edge-dominance on MIR")
LEVEL_TEXT = ("Static analysis of the type-checked MIR of /repo: for every kind of frame the sent journal remembers, the "
              "loss handler and the ACK handler of each packet space route it to the component that owns the data "
              "(exhaustive variant -> sink table extracted from the match arms), and each sink reaches — over resolved call "
              "edges — the send-buffer primitive that re-colours the range (BufMap::may_loss / ack_rcvd) and, for loss, a "
              "send wake-up; the receiving state becomes DataRcvd only on the `all received` edge and DataRead only on the "
              "`all read` edge. These are necessary conditions of 'lost data is resent' and 'EOF only after the last byte'; "
              "byte equality, ordering and exactly-once are interval arithmetic and are not decided (see C08/C09).")
NOT_DECIDED = ["bytes read == bytes written, in order, exactly once (interval arithmetic of RecvBuf / BufMap; C08 / C09 decide only its structural clauses)",
               "eventual delivery and completion of flush/shutdown (liveness)", "FIN retransmission state machine (fin_state) of DataSentSender"]

G = "qconnection::GuaranteedFrame"


def reaches(prog, start_rx, target_rx, from_body):
    """does a call matching start_rx in from_body lead (resolved edges + CHA) to a body matching target_rx"""
    t = re.compile(target_rx)
    for i, c in calls(from_body, start_rx):
        ids = [c["f"].get("def")] if c["f"].get("def") else []
        if c["f"].get("res") in ("none", "virtual"):
            ids += prog.trait_impls().get(c["f"].get("orig"), [])
        roots = [prog.bodies[x] for x in ids if x in prog.bodies]
        seen = prog.reachable_bodies(roots)
        if any(x in prog.bodies and t.search(prog.bodies[x].short) for x in seen):
            return True
    return False


def _ordinal(items, blk):
    k = [i for (i, _) in items].index(blk) + 1
    return {1: "1st", 2: "2nd", 3: "3rd"}.get(k, "%dth" % k)


def run(ctx):
    prog = ctx.prog
    ctx.rule("R1", "feedback-wiring completeness: every journal frame kind is routed on loss and on ack to the owner of the "
                   "data; the sink reaches BufMap::may_loss / BufMap::ack_rcvd (or re-queues the reliable frame) and loss wakes the sender")
    ctx.rule("R2", "EOF typestate: Recver::DataRcvd only on the is_all_rcvd edge from SizeKnown::upgrade; Recver::DataRead only on the is_all_read edge")

    # ---------------------------------------------------------------- R1: data space
    b = ctx.anchor("R1", "<qconnection::space::data::DataTracker as qcongestion::Feedback>::may_loss")
    loss_tbl = {"Stream": (r"DataStreams::may_loss_data$", r"sndbuf::BufMap::may_loss$"),
                "Crypto": (r"CryptoStreamOutgoing::may_loss_data$", r"sndbuf::BufMap::may_loss$"),
                "Reliable": (r"SendFrame<.*>>::send_frame$|io::SendFrame::send_frame$", None)}
    if b:
        tb = arm_table(prog, b, G) or {}
        ctx.ob("R1", "%s|match is exhaustive over GuaranteedFrame" % b.short, set(tb) == set(loss_tbl), b.where(),
               "arms %s; journal frame kinds %s (a kind without an arm is never retransmitted)" % (sorted(tb), sorted(loss_tbl)))
        for vn, (sink, prim) in sorted(loss_tbl.items()):
            arm = tb.get(vn)
            cs = [i for i, t in calls(b, sink) if arm and i in arm["blocks"]]
            ok = bool(cs)
            ctx.ob("R1", "%s|lost %s frame -> %s" % (b.short, vn, sink.split("$")[0].split("::")[-2] + "::" + sink.split("$")[0].split("::")[-1]), ok, b.where(),
                   "the %s arm calls the owner's loss sink: %s" % (vn, ok))
            if ok:
                # ... for every frame of that kind: no path leaves the arm without passing the sink
                r_ = b.reachable_from(arm["target"], avoid=set(cs))
                rets_ = set(b.return_blocks())
                leak = sorted(x for x in r_ if x not in arm["blocks"] and not b.is_cleanup(x) and (x in rets_ or b.reachable_from(x) & rets_))
                uncond = arm["target"] in cs or not leak
                ctx.ob("R1", "%s|every lost %s frame reaches the sink (no narrowing condition)" % (b.short, vn), uncond, b.where(),
                       "blocks outside the arm reachable without passing the sink: %s — a loss report that is dropped for some frames of this "
                       "kind (e.g. `if !matches!(frame, MaxData | MaxStreamData ..)`) means those frames are never sent again: a peer blocked "
                       "on the lost limit update stays blocked for good" % (leak[:6] or "none"))
            if ok and prim:
                r = reaches(prog, sink, prim, b)
                ctx.ob("R1", "%s|%s loss sink reaches BufMap::may_loss" % (b.short, vn), r, b.where(), "lost range is re-coloured for retransmission: %s" % r)
                w = reaches(prog, sink, r"net::tx::ArcSendWakers::wake_all_by$", b)
                ctx.ob("R1", "%s|%s loss sink wakes the sender" % (b.short, vn), w, b.where(),
                       "a lost range that wakes nobody is not resent until something else wakes the burst task: %s" % w)
    a = ctx.anchor("R1", "<qconnection::space::AckDataSpace as qbase::frame::io::ReceiveFrame<qbase::frame::ack::AckFrame>>::recv_frame")
    ack_tbl = {"Stream": (r"DataStreams::on_data_acked$", r"sndbuf::BufMap::ack_rcvd$"),
               "Crypto": (r"CryptoStreamOutgoing::on_data_acked$", r"sndbuf::BufMap::ack_rcvd$"),
               "Reliable": (r"DataStreams::on_reset_acked$", None)}
    if a:
        tb = arm_table(prog, a, G) or {}
        for vn, (sink, prim) in sorted(ack_tbl.items()):
            arm = tb.get(vn)
            cs = [i for i, t in calls(a, sink) if arm and i in arm["blocks"]]
            ok = bool(cs)
            ctx.ob("R1", "%s|acked %s frame -> %s" % (a.short.split(" as ")[0][1:], vn, sink.split("$")[0].split("::")[-1]), ok, a.where(),
                   "the %s arm reports the acknowledgement to the owner: %s (otherwise the bytes are never released and "
                   "flush/shutdown never complete)" % (vn, ok))
            if ok and prim:
                r = reaches(prog, sink, prim, a)
                ctx.ob("R1", "%s|%s ack sink reaches BufMap::ack_rcvd" % (a.short.split(" as ")[0][1:], vn), r, a.where(), "acknowledged range recorded: %s" % r)
    # ---------------------------------------------------------------- R1: initial / handshake spaces (crypto only)
    for sp, tr in (("initial", "InitialTracker"), ("handshake", "HandshakeTracker")):
        b = ctx.anchor("R1", "<qconnection::space::%s::%s as qcongestion::Feedback>::may_loss" % (sp, tr))
        if b:
            ok = bool(calls(b, r"CryptoStreamOutgoing::may_loss_data$")) and bool(calls(b, r"SentRotateGuard::may_loss_packet$"))
            ctx.ob("R1", "%s|lost crypto frames -> CryptoStreamOutgoing::may_loss_data" % b.short, ok, b.where(),
                   "frames of each lost packet are handed to the crypto stream: %s" % ok)
            if ok:
                r = reaches(prog, r"CryptoStreamOutgoing::may_loss_data$", r"sndbuf::BufMap::may_loss$", b)
                w = reaches(prog, r"CryptoStreamOutgoing::may_loss_data$", r"net::tx::ArcSendWakers::wake_all_by$", b)
                ctx.ob("R1", "%s|crypto loss sink re-colours and wakes" % b.short, r and w, b.where(), "reaches BufMap::may_loss: %s, wakes the sender: %s" % (r, w))
    for sp in ("AckInitialSpace", "AckHandshakeSpace"):
        a = ctx.anchor("R1", "<qconnection::space::%s as qbase::frame::io::ReceiveFrame<qbase::frame::ack::AckFrame>>::recv_frame" % sp)
        if a:
            ok = bool(calls(a, r"CryptoStreamOutgoing::on_data_acked$")) and reaches(prog, r"CryptoStreamOutgoing::on_data_acked$", r"sndbuf::BufMap::ack_rcvd$", a)
            ctx.ob("R1", "%s|acked crypto frames recorded" % sp, ok, a.where(), "on_data_acked called and reaches BufMap::ack_rcvd: %s" % ok)

    # ---------------------------------------------------------------- R2
    sites = []
    for b in prog.bodies.values():
        for (i, j, rv, line) in agg_sites(b, r"^qrecovery::recv::recver::Recver$"):
            if rv[1]["variant"] in ("DataRcvd", "DataRead"):
                sites.append((b, i, rv[1]["variant"], line, rv))
    ctx.floor("R2", "DataRcvd/DataRead transition sites", len(sites), 4)
    for (b, i, v, line, rv) in sites:
        ctx.touch(b)
        if v == "DataRead":
            g = False
            for c in call_blocks(b, r"recver::DataRcvd::is_all_read$"):
                oe = outcome_edges(b, c)
                if oe and b.dominates(c, i) and i not in b.reachable_from(list(oe["err"]), avoid={c}):
                    g = True
            ctx.ob("R2", "%s|DataRead only when everything was read" % b.short, g, b.where(line),
                   "state := DataRead on the true edge of DataRcvd::is_all_read(): %s (otherwise the reader reports EOF before the last byte)" % g)
        else:
            g = False
            for c in call_blocks(b, r"recver::SizeKnown::is_all_rcvd$"):
                oe = outcome_edges(b, c)
                if oe and b.dominates(c, i) and i not in b.reachable_from(list(oe["err"]), avoid={c}):
                    g = True
            up = any(o[0] == "call" and callee(o[2]).endswith("recver::SizeKnown::upgrade") for o in local_origins(b, rv[2][0]))
            ctx.ob("R2", "%s|DataRcvd only when everything was received" % b.short, g and up, b.where(line),
                   "state := DataRcvd(SizeKnown::upgrade()) on the true edge of is_all_rcvd(): guard %s, payload from upgrade(): %s" % (g, up))
    # ---------------------------------------------------------------- R3: a lost FIN is re-offered
    ctx.rule("R3", "FIN retransmission: DataSentSender.fin_state returns from Lost to Sent only where an end-of-stream frame is "
                   "produced (the picked item is marked is_eos = true); it becomes Lost when a FIN-bearing frame is lost and Rcvd only when one is acknowledged")
    fw = [(b, i, j, p_, rv, line) for (b, i, j, p_, rv, line) in field_writes(prog, "DataSentSender", "fin_state")]
    n3 = 0
    for (b, i, j, p_, rv, line) in fw:
        src = rv
        if rv[0] == "use" and op_place(rv[1]) is not None and len(op_place(rv[1])) == 1:
            for (bb, jj, rv2) in b.defs_of(op_place(rv[1])[0]):
                if jj != "term" and rv2[0] == "agg":
                    src = rv2
        if src[0] != "agg" or src[1].get("k") != "adt":
            continue
        variant = src[1]["variant"]
        ctx.touch(b)
        n3 += 1
        if variant == "Sent":
            # every path from the write to a return builds a tuple whose last element is the constant `true`
            good = set()
            for (i2, j2, p2, rv2, l2) in b.assigns():
                if rv2[0] == "agg" and rv2[1]["k"] == "tuple" and rv2[2] and const_int(rv2[2][-1]) == 1 and op_const(rv2[2][-1]).get("ty") == "bool":
                    good.add(i2)
            r = b.reachable_from(i, avoid=good - {i})
            ok = bool(good) and (i in good or not (r & set(b.return_blocks())))
            ctx.ob("R3", "%s|fin_state Lost->Sent only with an end-of-stream item" % b.short, ok, b.where(line),
                   "fin_state := Sent at bb%d; every path from there returns an item with is_eos == true: %s — clearing the "
                   "'FIN lost' mark while retransmitting data that does not carry the FIN means the FIN is never sent again: "
                   "the peer never sees end-of-stream and shutdown() never completes" % (i, ok))
        elif variant == "Rcvd":
            g = any(b.dominates(c, i) and i not in b.reachable_from(list((outcome_edges(b, c) or {"err": set()})["err"]), avoid={c})
                    for c in call_blocks(b, r"StreamFrame::is_fin$"))
            ctx.ob("R3", "%s|fin_state := Rcvd only for an acknowledged FIN frame" % b.short, g, b.where(line), "guarded by frame.is_fin(): %s" % g)
        elif variant == "Lost":
            g = any(b.dominates(c, i) for c in call_blocks(b, r"StreamFrame::is_fin$"))
            ctx.ob("R3", "%s|fin_state := Lost only for a lost FIN frame" % b.short, g, b.where(line), "guarded by frame.is_fin(): %s" % g)
            # ... and for EVERY lost FIN frame whose FIN is not acknowledged yet: no further condition may narrow it
            ds = deciders(b, i)
            extra = []
            for (sw, kind, text, truth) in ds:
                if kind == "call" and re.search(r"StreamFrame::is_fin$", text) and truth is True:
                    continue
                if kind == "call" and re.search(r"PartialEq(<.*>)?>?::(ne|eq)$", text):
                    # comparison of fin_state with a constant state
                    cmp_fin = False
                    for ci, ct in b.calls():
                        if callee(ct) == text and any(place_has_field(pl, "DataSentSender", "fin_state") for a in ct["args"] for pl in deep_places(b, a, 3)):
                            cmp_fin = True
                    if cmp_fin:
                        continue
                extra.append("%s %s (taken when %s)" % (kind, text.split("::")[-1] if kind == "call" else text, truth))
            ctx.ob("R3", "%s|every lost FIN frame marks the FIN lost (no narrowing condition)" % b.short, not extra, b.where(line),
                   "conditions deciding the `fin_state = Lost` write besides is_fin() and the fin_state test: %s — if the FIN mark depends on "
                   "anything else (e.g. the frame being empty) a FIN whose data was acknowledged through another frame is never sent "
                   "again: the reader never sees end-of-stream, shutdown never completes" % (extra or "none"))
    ctx.floor("R3", "fin_state transition sites", n3, 3)
    # ---------------------------------------------------------------- R4: completion predicates consult the buffer
    ctx.rule("R4", "flush/shutdown complete only when the send buffer says every byte is acknowledged: the completion predicates "
                   "reach SendBuf::is_all_rcvd (and, once the size is final, also require the FIN to be acknowledged)")
    for name in ("qrecovery::send::sender::DataSentSender::is_all_rcvd", "qrecovery::send::sender::DataSentSender::poll_flush",
                 "qrecovery::send::sender::DataSentSender::poll_shutdown", "qrecovery::crypto::send::Sender::poll_flush"):
        b = ctx.anchor("R4", name)
        if not b:
            continue
        seen = prog.reachable_bodies([b], cha=False)
        ok = any(x in prog.bodies and prog.bodies[x].short.endswith("sndbuf::SendBuf::is_all_rcvd") for x in seen)
        ctx.ob("R4", "%s|depends on SendBuf::is_all_rcvd" % b.short, ok, b.where(),
               "the predicate reaches SendBuf::is_all_rcvd: %s — completing on the FIN acknowledgement alone drops the stream "
               "while earlier data is still unacknowledged, so a lost range is never retransmitted" % ok)
    # ---------------------------------------------------------------- R5: reassembly cursor coupling
    ctx.rule("R5", "reassembly cursor coupling: inside RecvBuf::recv's placement loop every operation that cuts a prefix off the "
                   "incoming data (advance / split_to / split_off) is on a loop iteration that also moves the stream-offset cursor "
                   "`start`; otherwise the rest of the data is placed at the offset of the part already consumed")
    rb = ctx.anchor("R5", "qrecovery::recv::rcvbuf::RecvBuf::recv")
    if rb:
        from rules.C08 import recv_roles
        starts, datas, _ = recv_roles(rb)
        heads = sorted(set(v for u in rb.live_blocks() for v in rb.succ(u) if rb.dominates(v, u)))
        W = set(i for (i, j, p, rv, line) in rb.assigns() if len(p) == 1 and p[0] in starts and i not in (0,))
        cuts = []
        for i, t in rb.calls():
            if re.search(r"Buf>::advance$|bytes::Bytes::split_to$|bytes::Bytes::split_off$", callee(t)) and t["args"]:
                a0 = op_place(t["args"][0])
                if a0 is not None and any(jj != "term" and rv2[0] == "ref" and rv2[2][0] in datas
                                          for (bb, jj, rv2) in rb.defs_of(a0[0])):
                    cuts.append((i, t))
        in_loop = [(i, t) for (i, t) in cuts if any(i in rb.reachable_from(h) and h in rb.reachable_from(i) for h in heads)]
        ctx.floor("R5", "prefix-cutting calls inside the placement loop", len(in_loop), 4)
        ctx.floor("R5", "writes of the cursor `start`", len(W), 4)
        for (i, t) in in_loop:
            bad = None
            for h in heads:
                if h not in rb.reachable_from(i):
                    continue
                to_c = i in rb.reachable_from(h, avoid=W) or i == h
                nxt = t.get("to")
                back = nxt is not None and i not in W and (h == nxt or h in rb.reachable_from(nxt, avoid=W))
                if to_c and back and i not in W:
                    bad = h
            ctx.ob("R5", "%s|%s at the %s cut moves `start` in the same iteration" % (rb.short, callee(t).split("::")[-1],
                                                                                  _ordinal(in_loop, i)), bad is None, rb.where(t["line"]),
                   "cut at bb%d; an iteration through it that never writes `start`: %s" % (i, "none" if bad is None else "exists (loop head bb%d)" % bad))
    # ---------------------------------------------------------------- R6 by reference
    ctx.rule("R6", "the buffers keep their structural invariants (C08 R2..R5 and C09 R1..R6 obligations re-evaluated): what the receive "
                   "buffer stores and hands out, what the send buffer keeps, re-offers and releases")
    import importlib
    from qlint import framework as fw
    known = set((f["property"], f["key"]) for f in fw.load_known().get("findings", []))
    for pid, keep, floor_n in (("C08", lambda o: o.rule in ("R2", "R3", "R4", "R5"), 15), ("C09", lambda o: True, 30)):
        sub = fw.Ctx(pid, ctx.tier, ctx.seed, prog)
        importlib.import_module("rules." + pid).run(sub)
        n6 = 0
        for o in sub.obs:
            if keep(o):
                if not o.ok and (pid, o.key) in known:
                    continue
                n6 += 1
                ctx.ob("R6", "%s:%s" % (pid, o.key), o.ok, o.where, o.detail)
        ctx.functions |= sub.functions
        ctx.floor("R6", "obligations inherited from %s" % pid, n6, floor_n)
    # who else writes the final states
    ctx.assume("BufMap::may_loss / ack_rcvd re-colour exactly the given range (value-level, C09)")
