"""C12 — Stream limits, stream direction and final size are enforced (structural clauses)."""
from rules.common import *

TECHNIQUE = ("static analysis: comparison-operator/operand-role extraction at the two stream-limit sites (sibling "
             "agreement), per-frame direction table from MIR match arms with edge polarity, error-construction presence, "
             "loop-body call counting")
LEVEL_TEXT = ("Static analysis of the type-checked MIR of /repo: the stream-count comparison on the remote side is "
              "extracted (operator, operand roles) and must reject index >= count like the local side admits index < count; "
              "for each stream-related frame kind the STREAM_STATE_ERROR construction must sit on the edge the RFC "
              "prescribes (role polarity, unidirectional test) and every peer-initiated id must pass try_accept_sid with "
              "the error propagated; each final-size check constructs FINAL_SIZE_ERROR on a conditional path; implicit "
              "opening inserts and offers every lower-numbered stream exactly once per loop iteration and advances the "
              "cursor. Necessary structural conditions on all paths.")
NOT_DECIDED = ["behaviour over sequences of MAX_STREAMS / STREAMS_BLOCKED frames (concurrency strategy values)",
               "that the final-size comparisons use the right values (only presence and conditionality are decided)",
               "frames naming a locally-initiated stream that was never opened (not part of the property statement)"]

DS = "qrecovery::streams::raw::DataStreams"
# frame kind -> who may send it: 'sender' = the peer must be the sending side of the stream, 'receiver' = receiving side
DIRECTION = {"Stream": "sender", "ResetStream": "sender", "StreamDataBlocked": "sender",
             "StopSending": "receiver", "MaxStreamData": "receiver"}


def _bool_regions(body, call_blk):
    oe = outcome_edges(body, call_blk)
    if not oe:
        return None
    t = body.reachable_from(list(oe["ok"]), avoid={call_blk})
    f = body.reachable_from(list(oe["err"]), avoid={call_blk})
    return t, f


def _check_arm(ctx, prog, body, blocks, kind, label):
    """direction obligations for one handler arm (set of blocks)"""
    want = DIRECTION[kind]
    # role comparison and dir comparison inside the arm
    role_cmp = [(i, t) for i, t in body.calls() if i in blocks and re.search(r"PartialEq>?::(ne|eq)$|cmp::PartialEq::(ne|eq)$", callee(t))
                and "role::Role" in (body.local_ty(op_place(t["args"][0])[0]) if op_place(t["args"][0]) else "")]
    ss = [i for (i, j, rv, line) in agg_sites(body, r"error::ErrorKind$", "StreamState") if i in blocks]
    tas = [(i, t) for i, t in body.calls() if i in blocks and callee(t).endswith("DataStreams::try_accept_sid")]
    ok_role = False
    det = ""
    if role_cmp and ss:
        i, t = role_cmp[0]
        reg = _bool_regions(body, i)
        if reg:
            tr, fa = reg
            is_ne = callee(t).endswith("ne")
            remote_region = tr if is_ne else fa
            local_region = fa if is_ne else tr
            s = ss[0]
            in_remote = s in remote_region and s not in local_region
            in_local = s in local_region and s not in remote_region
            # unidirectional test: StreamState block on the true edge of eq(dir, Dir::Uni)
            uni = False
            for i2, t2 in body.calls():
                if i2 in blocks and callee(t2).endswith("<qbase::sid::Dir as core::cmp::PartialEq>::eq"):
                    kp = None
                    for o in local_origins(body, t2["args"][1]):
                        if o[0] == "const" and o[1] and "promoted" in o[1]:
                            pb = prog.bodies.get("%s::promoted[%d]" % (o[1]["promoted_of"], o[1]["promoted"]))
                            if pb:
                                for (_, _, _, rv, _) in pb.assigns():
                                    if rv[0] == "agg" and rv[1]["k"] == "adt" and rv[1]["adt"] == "qbase::sid::Dir":
                                        kp = rv[1]["variant"]
                    reg2 = _bool_regions(body, i2)
                    if kp == "Uni" and reg2 and s in reg2[0] and s not in reg2[1]:
                        uni = True
            if want == "sender":
                ok_role = in_local and uni
                det = "STREAM_STATE_ERROR on the (local stream, unidirectional) edge: local=%s uni=%s" % (in_local, uni)
            else:
                ok_role = in_remote and uni
                det = "STREAM_STATE_ERROR on the (peer stream, unidirectional) edge: remote=%s uni=%s" % (in_remote, uni)
    else:
        det = "role comparison sites %d, StreamState constructions %d in this arm" % (len(role_cmp), len(ss))
    ctx.ob("R2", "%s|%s: wrong-direction use -> StreamState" % (label, kind), ok_role, body.where(), det)
    # peer-initiated ids pass try_accept_sid and the error is propagated
    ok_ta = False
    if tas:
        i, t = tas[0]
        oe = outcome_edges(body, i)
        if oe and oe["err"]:
            r = body.reachable_from(list(oe["err"]), avoid={i})
            # the failure edge must not reach the place where the stream maps are consulted
            uses = [b for b, tt in body.calls() if b in blocks and re.search(r"Arc(Input|Output)::streams$", callee(tt))]
            ok_ta = not any(u in r for u in uses)
    ctx.ob("R2", "%s|%s: peer id checked by try_accept_sid, error propagated" % (label, kind), ok_ta, body.where(),
           "try_accept_sid call sites in arm: %d; failure edge bypasses the stream lookup: %s (StreamLimit error mapping is "
           "wrapper_error's)" % (len(tas), ok_ta))


def run(ctx):
    prog = ctx.prog
    ctx.rule("R1", "limit-comparison strictness: the remote side must reject a stream whose index is >= the advertised count "
                   "(the local side admits index < count)")
    ctx.rule("R2", "direction table: STREAM/RESET_STREAM/STREAM_DATA_BLOCKED on a local unidirectional stream and "
                   "STOP_SENDING/MAX_STREAM_DATA on a peer unidirectional stream give STREAM_STATE_ERROR; peer ids pass try_accept_sid")
    ctx.rule("R3", "final-size checks construct FINAL_SIZE_ERROR on conditional paths (5 sites)")
    ctx.rule("R5", "final-size comparisons relate the right quantities, with the right strictness: a FIN below data already received, "
                   "data beyond the final size, a FIN that changes the final size, a reset below the received extent, a reset "
                   "that changes the final size")
    ctx.rule("R6", "stream-count parameter selection: StreamIds::new receives, in this order, the local initial_max_streams_bidi, the local "
                   "initial_max_streams_uni, the peer's initial_max_streams_bidi and the peer's initial_max_streams_uni; inside, the "
                   "remote-id checker is built from the local pair and the local allocator from the peer's pair")
    ctx.rule("R4", "implicit opening: every id in NeedCreate is inserted and offered to the listener exactly once; the "
                   "cursor advances to sid.next and NeedCreate starts at the previous cursor")

    # ---------------------------------------------------------------- R1
    b = ctx.anchor("R1", "qbase::sid::remote_sid::RemoteStreamIds::try_accept_sid")
    if b:
        errs = [i for (i, j, rv, line) in agg_sites(b, r"remote_sid::ExceedLimitError$")]
        ctx.floor("R1", "ExceedLimitError constructions", len(errs), 1)
        found = None
        for sb in b.live_blocks():
            t = b.term(sb)
            if t["t"] != "switch":
                continue
            pl = op_place(t["on"])
            if not pl or len(pl) != 1:
                continue
            for (bb, jj, rv) in b.defs_of(pl[0]):
                if jj == "term" or rv[0] != "bin" or rv[1] not in ("Gt", "Ge", "Lt", "Le"):
                    continue

                def role_of(o):
                    p_ = op_place(o)
                    if p_ is None:
                        return "const"
                    for og in local_origins(b, o):
                        if og[0] == "call" and callee(og[2]).endswith("StreamId::id"):
                            return "index"
                        if og[0] == "place" and "max" in place_fields(og[1]):
                            return "count"
                    return "?"
                ra, rb = role_of(rv[2]), role_of(rv[3])
                tr, fa = switch_edges_on_local(b, sb)
                e = errs[0] if errs else None
                err_on_true = e is not None and e in b.reachable_from(list(tr)) and e not in b.reachable_from(list(fa))
                found = (rv[1], ra, rb, err_on_true, sb)
        ok = False
        desc = "comparison guarding ExceedLimitError not recognised"
        if found:
            op, ra, rb, err_on_true, sb = found
            # normalise to: reject when index OP' count
            if (ra, rb) == ("index", "count"):
                rej = op if err_on_true else {"Gt": "Le", "Ge": "Lt", "Lt": "Ge", "Le": "Gt"}[op]
            elif (ra, rb) == ("count", "index"):
                sw = {"Gt": "Lt", "Ge": "Le", "Lt": "Gt", "Le": "Ge"}[op]
                rej = sw if err_on_true else {"Gt": "Le", "Ge": "Lt", "Lt": "Ge", "Le": "Gt"}[sw]
            else:
                rej = None
            ok = rej == "Ge"
            desc = "rejects when index %s count (operands: %s %s %s, error on %s edge)" % (rej, ra, op, rb, "true" if err_on_true else "false")
        ctx.ob("R1", "%s|reject index >= count" % b.short, ok, b.where(),
               "%s; initial_max_streams / MAX_STREAMS carry a *count*, stream indices start at 0, so index == count is "
               "already one stream too many (sibling LocalStreamIds::poll_alloc_sid admits only index < count)" % desc)
    lb = ctx.anchor("R1", "qbase::sid::local_sid::LocalStreamIds::poll_alloc_sid")
    if lb:
        ok = False
        for (i, j, p, rv, line) in lb.assigns():
            if rv[0] == "bin" and rv[1] == "Lt":
                fa_ = [place_fields(o[1]) for o in local_origins(lb, rv[2]) if o[0] == "place"]
                fb_ = [place_fields(o[1]) for o in local_origins(lb, rv[3]) if o[0] == "place"]
                if any("unallocated" in f for f in fa_) and any("max" in f for f in fb_):
                    ok = True
        ctx.ob("R1", "%s|admit only index < count" % lb.short, ok, lb.where(), "local side opens a stream only when unallocated < max: %s" % ok)

    # ---------------------------------------------------------------- R2
    rd = ctx.anchor("R2", DS + "::recv_data")
    if rd:
        _check_arm(ctx, prog, rd, rd.live_blocks(), "Stream", rd.short)
    rc = ctx.anchor("R2", DS + "::recv_stream_control")
    if rc:
        tb = arm_table(prog, rc, "qbase::frame::StreamCtlFrame") or {}
        ctx.floor("R2", "StreamCtlFrame arms", len(tb), 4)
        for kind in ("ResetStream", "StopSending", "MaxStreamData", "StreamDataBlocked"):
            arm = tb.get(kind)
            if arm is None:
                ctx.ob("R2", "%s|%s arm present" % (rc.short, kind), False, rc.where(), "no match arm for %s" % kind)
                continue
            _check_arm(ctx, prog, rc, arm["blocks"], kind, rc.short)
    # StreamLimit mapping
    we = prog.find(r"^qrecovery::streams::raw::wrapper_error(::\{closure#0\})?$")
    kinds = set()
    for w in we:
        ctx.touch(w)
        kinds |= set(rv[1]["variant"] for (i, j, p, rv, line) in w.assigns()
                     if rv[0] == "agg" and rv[1]["k"] == "adt" and rv[1]["adt"].endswith("error::ErrorKind"))
    ctx.ob("R2", "wrapper_error maps ExceedLimitError to StreamLimit", kinds == {"StreamLimit"}, "qrecovery/src/streams/raw.rs",
           "ErrorKind constructed by wrapper_error: %s" % sorted(kinds))

    # ---------------------------------------------------------------- R3
    sites = [("qrecovery::recv::recver::Recv::determin_size", 1), ("qrecovery::recv::recver::SizeKnown::recv", 2),
             ("qrecovery::recv::recver::Recv::recv_reset", 1), ("qrecovery::recv::recver::SizeKnown::recv_reset", 1)]
    for name, n in sites:
        b = ctx.anchor("R3", name)
        if not b:
            continue
        fs = [(i, line) for (i, j, rv, line) in agg_sites(b, r"error::ErrorKind$", "FinalSize")]
        cond = [i for (i, line) in fs if not all(b.dominates(i, r) for r in b.return_blocks())]
        ctx.ob("R3", "%s|FINAL_SIZE_ERROR x%d" % (b.short, n), len(fs) >= n and len(cond) == len(fs), b.where(),
               "%d FinalSize construction(s) (%d expected), all on conditional paths: %s" % (len(fs), n, len(cond) == len(fs)))
        oks = ok_return_sites(b)
        for k, (i, line) in enumerate(fs):
            root = decision_root(b, i)
            ok = root is not None and bool(oks) and all(b.dominates(root, o) for o in oks)
            ctx.ob("R3", "%s|final-size check #%d is evaluated before every successful return" % (b.short, k + 1), ok, b.where(line),
                   "condition chain of the check starts at bb%s; Ok(..) built at %s; dominated: %s — a fast path returning Ok "
                   "before the check accepts a frame that contradicts the stream's final size" % (root, oks, ok))

    # ---------------------------------------------------------------- R5
    def _cls(role):
        if role.startswith("sum(") and "StreamFrame::offset" in role and ("::len" in role):
            return "END"            # offset + length of the frame's data
        if role == "field:SizeKnown.final_size":
            return "FINAL"
        if role in ("call:RecvBuf::largest_offset", "field:Recv.largest"):
            return "RCVD_EXTENT"
        if role == "call:ResetStreamFrame::final_size":
            return "RESET_FINAL"
        return role
    want = {
        "qrecovery::recv::recver::Recv::determin_size": ["END Lt RCVD_EXTENT"],
        "qrecovery::recv::recver::SizeKnown::recv": ["END Gt FINAL", "END Ne FINAL"],
        "qrecovery::recv::recver::Recv::recv_reset": ["RCVD_EXTENT Gt RESET_FINAL"],
        "qrecovery::recv::recver::SizeKnown::recv_reset": ["FINAL Ne RESET_FINAL"],
    }
    for name, exp in want.items():
        b = ctx.anchor("R5", name)
        if not b:
            continue
        got = []
        for (i, j, rv, line) in agg_sites(b, r"error::ErrorKind$", "FinalSize"):
            g = guard_cmp(b, i)
            if g is None:
                got.append("<no comparison recognised>")
                continue
            (sw, op, x, y) = g
            cx = "|".join(sorted(_cls(r) for r in value_roles(b, x)))
            cy = "|".join(sorted(_cls(r) for r in value_roles(b, y)))
            if cx > cy:
                cx, cy, op = cy, cx, {"Gt": "Lt", "Ge": "Le", "Lt": "Gt", "Le": "Ge", "Eq": "Eq", "Ne": "Ne"}[op]
            got.append("%s %s %s" % (cx, op, cy))
        for e in exp:
            ctx.ob("R5", "%s|FINAL_SIZE_ERROR exactly when %s" % (b.short, e), e in got, b.where(),
                   "comparisons guarding the FinalSize error (relation that holds when the error is built): %s; expected %s — a "
                   "comparison of other quantities, or of other strictness, accepts a contradicting final size or rejects a "
                   "consistent one" % (got, e))

    # ---------------------------------------------------------------- R6
    PIDT = "qbase::param::core::ParameterId"
    dn = ctx.anchor("R6", DS + "::new")
    if dn:
        sn = [(i, t) for i, t in dn.calls() if re.search(r"sid::StreamIds(<.*>|::<.*>)?::new$", callee(t))]
        ctx.floor("R6", "StreamIds::new call in DataStreams::new", len(sn), 1)
        want = [(1, "InitialMaxStreamsBidi", "local_params"), (2, "InitialMaxStreamsUni", "local_params"),
                (3, "InitialMaxStreamsBidi", "remote_params"), (4, "InitialMaxStreamsUni", "remote_params")]
        for (i, t) in sn[:1]:
            for (k, pid, side) in want:
                if k >= len(t["args"]):
                    ctx.ob("R6", "%s|StreamIds::new arg%d" % (dn.short, k), False, dn.where(t["line"]), "argument missing")
                    continue
                got = sorted(v for (a, v) in deep_aggs(dn, t["args"][k]) if a == PIDT)
                # which parameter set the value is read from: the &Parameters argument of DataStreams::new (arg 2 = local, 3 = remote)
                sides = set()
                for pl in deep_places(dn, t["args"][k], 8):
                    for og in dn.trace_local(pl[0]):
                        if og[0] == "arg" and "::Parameters<" in dn.local_ty(og[1]):
                            sides.add(dn.local_name(og[1]) or "arg%d" % og[1])
                    if 1 <= pl[0] <= dn.argc and "::Parameters<" in dn.local_ty(pl[0]):
                        sides.add(dn.local_name(pl[0]) or "arg%d" % pl[0])
                params = [l for l in range(1, dn.argc + 1) if "::Parameters<" in dn.local_ty(l)]
                want_local = (dn.local_name(params[0]) or "arg%d" % params[0]) if len(params) == 2 else None
                want_remote = (dn.local_name(params[1]) or "arg%d" % params[1]) if len(params) == 2 else None
                ws = want_local if side == "local_params" else want_remote
                ctx.ob("R6", "%s|StreamIds::new arg%d <- %s of the %s parameters" % (dn.short, k, pid, "local" if side == "local_params" else "peer's"),
                       got == [pid] and sides == {ws}, dn.where(t["line"]),
                       "ParameterId constants reaching the argument: %s; read from: %s — a limit taken from the wrong parameter lets the peer "
                       "open more streams than were advertised (or refuses legitimate ones) while the advertised transport parameters "
                       "stay correct" % (got, sorted(sides)))
    si = ctx.anchor("R6", "qbase::sid::StreamIds::new")
    if si:
        # remote checker <- (local_max_bi, local_max_uni) = args 2,3 ; local allocator <- (remote_max_bi, remote_max_uni) = args 4,5
        for rx, wa, what in ((r"ArcRemoteStreamIds(<.*>|::<.*>)?::new$", [2, 3], "remote-id checker <- local limits"),
                             (r"ArcLocalStreamIds(<.*>|::<.*>)?::new$", [4, 5], "local allocator <- peer limits")):
            cs = [(i, t) for i, t in si.calls() if re.search(rx, callee(t))]
            ok = False
            got = None
            for (i, t) in cs[:1]:
                got = []
                for a in t["args"][1:3]:
                    r_ = [og[1] for og in local_origins(si, a) if og[0] == "arg"]
                    got.append(r_[0] if len(r_) == 1 else None)
                ok = got == wa
            ctx.ob("R6", "%s|%s" % (si.short, what), ok, si.where(), "arguments 1,2 of the constructor are parameters %s of StreamIds::new (expected %s)" % (got, wa))

    # ---------------------------------------------------------------- R7
    ctx.rule("R7", "the extent a reset is compared with is the maximum ever received: Recv.largest is written only under `largest < new` "
                   "(a reordered or duplicate frame must not lower it)")
    for (b7, i7, j7, p7, rv7, line7) in [w for w in field_writes(prog, "recver::Recv", "largest") if not w[0].short.endswith("::new")]:
        ctx.touch(b7)
        kind7 = classify_write(b7, i7, j7)
        ok7 = kind7[0] == "add" or guarded_increase(b7, i7, j7)
        ctx.ob("R7", "%s|Recv.largest only grows" % b7.short, ok7, b7.where(line7),
               "write shape `%s`; guarded by new > old: %s — otherwise a RESET_STREAM whose final size lies below data already received "
               "(after reordering) is accepted instead of FINAL_SIZE_ERROR, and an honest reset over-charges connection flow control"
               % (kind7[0], ok7))

    # ---------------------------------------------------------------- R4
    for name, inserts in ((DS + "::try_accept_bi_sid", [r"ArcInputGuard::insert$", r"ArcOutputGuard::insert$", r"ListenerGuard::push_bi_stream$"]),
                          (DS + "::try_accept_uni_sid", [r"ArcInputGuard::insert$", r"ListenerGuard::push_uni_stream$"])):
        b = ctx.anchor("R4", name)
        if not b:
            continue
        nx = call_blocks(b, r"NeedCreate as core::iter::traits::iterator::Iterator>::next$")
        if not nx:
            ctx.ob("R4", "%s|iterates NeedCreate" % b.short, False, b.where(), "no NeedCreate::next loop")
            continue
        oe = outcome_edges(b, nx[0])
        body_blocks = b.reachable_from(list(oe["ok"]), avoid={nx[0]}) if oe else set()
        # loop body = blocks from the Some edge that can reach next() again
        loop = set(x for x in body_blocks if nx[0] in b.reachable_from(x))
        for rx in inserts:
            cs = [i for i in call_blocks(b, rx) if i in loop]
            # exactly once per iteration: one call site, on every path through the body
            once = len(cs) == 1 and nx[0] not in b.reachable_from(list(oe["ok"]), avoid={cs[0]})
            ctx.ob("R4", "%s|%s exactly once per new id" % (b.short, rx.rstrip("$")), once, b.where(),
                   "call sites in the loop body: %d; on every path of an iteration: %s" % (len(cs), once))
    b = ctx.anchor("R4", "qbase::sid::remote_sid::RemoteStreamIds::try_accept_sid")
    if b:
        nc = agg_sites(b, r"remote_sid::NeedCreate$")
        ctx.floor("R4", "NeedCreate constructions", len(nc), 1)
        for (i, j, rv, line) in nc:
            start, end = rv[2][0], rv[2][1]
            so = local_origins(b, start)
            eo = local_origins(b, end)
            s_ok = any(o[0] == "place" and "unallocated" in place_fields(o[1]) for o in so) or \
                any(o[0] == "place" and any(oo[0] == "place" and "unallocated" in place_fields(oo[1]) for oo in b.trace_local(o[1][0])) for o in so)
            e_ok = any(o == ("arg", 2) for o in eo)
            ctx.ob("R4", "%s|NeedCreate{start: previous cursor, end: sid}" % b.short, s_ok and e_ok, b.where(line),
                   "start from cursor: %s, end is the accepted id: %s" % (s_ok, e_ok))
        # cursor write = next_unchecked(sid), and it happens on the New path
        w = False
        for i, t in b.calls():
            if callee(t).endswith("StreamId::next_unchecked") and any(o == ("arg", 2) for o in local_origins(b, t["args"][0])):
                # the result is stored through the cursor (deref of a &mut to unallocated[idx])
                d = t["dest"]
                cands = [d]
                if len(d) == 1:
                    for (i2, j2, p2, rv2, l2) in b.assigns():
                        if rv2[0] == "use" and op_place(rv2[1]) == d:
                            cands.append(p2)
                for c in cands:
                    if len(c) >= 2 and c[1] == "*":
                        if any(o[0] == "place" and "unallocated" in place_fields(o[1]) for o in b.trace_local(c[0])):
                            w = True
                    elif "unallocated" in place_fields(c):
                        w = True
        ctx.ob("R4", "%s|cursor := sid.next" % b.short, w, b.where(), "cursor advanced past the accepted id: %s" % w)
    ctx.assume("StreamId ordering within one (role, dir) class is the index ordering")
