"""C03 — Decoding untrusted bytes never panics, hangs or mis-frames (structural clauses)."""
from rules.common import *
from rules.nomclass import NomAnalysis, is_nom_result_ty, is_nom_err_ty

TECHNIQUE = ("static analysis: nom error-class effect inference (may-analysis over {Incomplete, Error, Failure}) checked "
             "against the panicking arms of every error handler; explicit-panic inventory on the decode slice of the call "
             "graph; loop-exit and buffer-clear dominance for the two readers; error-mapping tables")
LEVEL_TEXT = ("Static analysis of the type-checked MIR of /repo: (R1) for every parser (function or closure returning "
              "Result<_, nom::Err<_>>) the set of nom::Err variants it may return is inferred from a reviewed table of the "
              "nom primitives used and from the map_err/?/From conversions on the way; every handler arm that panics "
              "(`_ => unreachable!()`, `assert!(matches!(..))`) must be unreachable for the variants that can flow into "
              "it; (R2) every explicit panic (panic!/unreachable!/assert!/unwrap/expect) in a function reachable from the "
              "decode entry points must be discharged by R1 or listed in the reviewed table with its reason; (R3) the "
              "frame loop leaves on the first error and the packet reader clears its buffer on error, so a reader that "
              "does not advance cannot spin; (R4) decode errors map to the prescribed transport error codes. Necessary "
              "structural conditions on all paths; bounds/overflow checks on peer-chosen integers are not decided here.")
NOT_DECIDED = ["arithmetic overflow and slice-bounds panics driven by peer-chosen integers (no value-range analysis; the "
               "unguarded split_at in qtraversal::nat::msg::be_packet is a known limitation of this rule set)",
               "that decoded values are the intended ones (C05)", "termination of parser combinators on every input "
               "(only the no-progress loops of the two readers are decided)"]

CRATES = ("qbase", "qtraversal", "qprotocol", "qinterface", "qconnection")
DECODE_ROOTS = [r"^<qbase::packet::PacketReader as core::iter::traits::iterator::Iterator>::next$",
                r"^<qbase::frame::FrameReader as core::iter::traits::iterator::Iterator>::next$",
                r"^qbase::param::io::<impl qbase::param::core::Parameters>::parse_from_bytes$",
                r"^qbase::param::io::<impl qbase::param::core::Parameters>::try_from_remembered_bytes$",
                r"^qtraversal::nat::msg::be_packet$", r"^qtraversal::packet::be_header$"]
# reviewed explicit panics on the decode slice: (function, kind) -> reason
PANIC_TABLE = {
    ("qbase::cid::connection_id::ConnectionId::from_slice", "debug_assert"): "debug-only; every decode caller bounds the length first (be_connection_id_with_len: TooLarge; be_parameter_value: TooLarge since fix 780795b)",
    ("qbase::frame::datagram::datagram_frame_with_flag::{closure#0}", "Result::expect"): "VarInt::try_from(usize) of the remaining input length: a datagram is < 2^62 bytes",
    ("qbase::token::ResetToken::new", "Result::unwrap"): "slice-to-[u8;16] conversion after an exact 16-byte take",
    ("qbase::frame::io::be_frame::{closure#0}", "unreachable"): "handler arm: discharged by R1 (Failure never produced)",
    ("qbase::packet::io::be_packet::{closure#0}", "unreachable"): "handler arm: discharged by R1",
    ("qbase::packet::io::be_payload::{closure#0}", "unreachable"): "handler arm: discharged by R1",
    ("qbase::varint::be_varint::{closure#1}", "unreachable"): "handler arm: discharged by R1 (bits::streaming::take only reports Incomplete)",
    ("<qbase::frame::error::Error as core::convert::From<nom::internal::Err>>::from", "unreachable"): "handler arm: discharged by R1 (frame parsers convert Incomplete before `?`)",
}


def run(ctx):
    prog = ctx.prog
    ctx.rule("R1", "nom error-class vs handler arms: no handler arm that panics is reachable for a nom::Err variant its input may carry")
    ctx.rule("R2", "explicit panics on the decode slice are discharged by R1 or listed in the reviewed table")
    ctx.rule("R3", "readers cannot spin: the frame loop exits on the first Err; PacketReader clears its buffer on Err")
    ctx.rule("R4", "prescribed error mapping: frame errors -> FRAME_ENCODING_ERROR (NoFrames -> PROTOCOL_VIOLATION), parameter errors -> TRANSPORT_PARAMETER_ERROR")

    # ---------------------------------------------------------------- R1
    na = NomAnalysis(prog)
    parsers = [b for b in prog.bodies.values() if b.crate in CRATES and is_nom_result_ty(b.local_ty(0))]
    users = [b for b in prog.bodies.values() if b.crate in CRATES and
             any(is_nom_result_ty(b.local_ty(l)) or is_nom_err_ty(b.local_ty(l)) for l in range(len(b.locals)))]
    for b in sorted(users, key=lambda x: x.id):
        na.body_out(b)
        ctx.touch(b)
    ctx.floor("R1", "parser bodies (return Result<_, nom::Err<_>>)", len(parsers), 60)
    ctx.ob("R1", "nom items without a table row", not na.unknown, "rules/nomclass.py",
           "nom primitives/combinators used by the workspace that the reviewed class table does not cover: %s (fail closed: "
           "their error classes are unknown)" % (sorted(na.unknown) or "none"))
    handlers = []
    for b in sorted(users, key=lambda x: x.id):
        tr = na.transformer(b) if any(is_nom_err_ty(b.local_ty(i)) for i in range(1, b.argc + 1)) else None
        if tr and any(v == "panic" for v in tr["arms"].values()):
            handlers.append((b, tr))
    ctx.floor("R1", "error handlers with a panicking arm", len(handlers), 5)
    reported = {}
    for (cb, v, via) in na.handler_reports:
        reported.setdefault((cb.id, v), set()).add(via.short)
    ctx.stats["R1.parser_classes"] = {b.short: sorted(na.out.get(b.id, [])) for b in sorted(parsers, key=lambda x: x.short)[:80]}
    for (b, tr) in handlers:
        for v, r in sorted(tr["arms"].items()):
            if r != "panic":
                continue
            via = reported.get((b.id, v))
            ctx.ob("R1", "%s|arm %s panics: never fed" % (b.short, v), not via, b.where(),
                   "handler arm for nom::Err::%s diverges (unreachable!/assert!); values of that class flowing in: %s — a "
                   "peer can drive the parser into this class, so decoding panics instead of returning an error"
                   % (v, sorted(via) if via else "none"))

    # ---------------------------------------------------------------- R2
    roots = []
    for rx in DECODE_ROOTS:
        r = prog.find(rx)
        if len(r) != 1:
            ctx.ob("R2", "anchor:%s" % rx, False, "", "decode root not found (%d)" % len(r))
        roots += r
    seen = prog.reachable_bodies(roots)
    ws = [prog.bodies[x] for x in seen if x in prog.bodies and prog.bodies[x].crate in CRATES]
    ctx.floor("R2", "workspace bodies on the decode slice", len(ws), 150)
    sites = {}
    for b in ws:
        ctx.touch(b)
        for i in sorted(b.live_blocks()):
            t = b.term(i)
            if t["t"] != "call":
                continue
            mac = [m for m in t.get("mac", []) if not m.startswith("$crate") and not m.startswith("desugar")]
            if any(m.startswith("tracing::") or m in ("event", "qevent::event", "trace", "debug", "warn", "info", "error") for m in mac):
                continue
            kind = None
            if t.get("to") is None:
                kind = (mac[-1] if mac else callee(t).split("::")[-1])
                if kind == "assert" and "debug_assert" in mac:
                    kind = "debug_assert"
            elif re.search(r"(option::Option|result::Result)::(unwrap|expect)$", callee(t)):
                kind = callee(t).split("::")[-2] + "::" + callee(t).split("::")[-1]
                # lock poisoning can only follow another panic
                if any(og[0] == "call" and re.search(r"Mutex::lock$|RwLock::(read|write)$", callee(og[2])) for og in local_origins(b, t["args"][0])):
                    continue
            if kind:
                sites[(b.short, kind)] = sites.get((b.short, kind), 0) + 1
    ctx.stats["R2.sites"] = {"%s|%s" % k: v for k, v in sorted(sites.items())}
    for (fn, kind), n in sorted(sites.items()):
        reason = PANIC_TABLE.get((fn, kind))
        ctx.ob("R2", "%s|%s" % (fn, kind), reason is not None, "",
               "%d explicit panic site(s) of kind `%s` in a function reachable from the decode entry points: %s"
               % (n, kind, reason or "NOT in the reviewed table — untrusted bytes may reach a panic"))

    # ---------------------------------------------------------------- R3
    rp = ctx.anchor("R3", "qconnection::space::read_plain_packet")
    if rp:
        nx = call_blocks(rp, r"FrameReader as core::iter::traits::iterator::Iterator>::next$")
        ok = False
        det = "no FrameReader::next loop"
        if nx:
            # the Err payload of an item must leave the loop: from the map_err/? failure edge next() is not reachable
            ok = True
            det = ""
            for i, t in rp.calls():
                if callee(t).endswith("result::Result::map_err") or re.search(r"Try>::branch$", callee(t)):
                    oe = outcome_edges(rp, i)
                    if oe and oe["err"]:
                        if nx[0] in rp.reachable_from(list(oe["err"]), avoid={i}):
                            ok = False
                            det = "the error edge at bb%d re-enters the loop" % i
        ctx.ob("R3", "%s|frame loop exits on the first error" % rp.short, ok, rp.where(),
               "FrameReader::next does not advance on Err; the consumer must leave the loop: %s %s" % (ok, det))
        news = prog.call_sites(r"qbase::frame::FrameReader::new$")
        ctx.ob("R3", "FrameReader::new only in read_plain_packet", [b.short for b, i, t in news] == [rp.short], rp.where(),
               "constructors: %s" % [b.short for b, i, t in news])
    pr = ctx.anchor("R3", "<qbase::packet::PacketReader as core::iter::traits::iterator::Iterator>::next")
    if pr:
        bp = call_blocks(pr, r"packet::io::be_packet$")
        cl = call_blocks(pr, r"BytesMut::clear$")
        ok = False
        if bp and cl:
            oe = outcome_edges(pr, bp[0])
            if oe:
                r = pr.reachable_from(list(oe["err"]), avoid=set(cl))
                ok = not (r & set(pr.return_blocks()))
        ctx.ob("R3", "%s|buffer cleared on error" % pr.short, ok, pr.where(),
               "every path from the Err edge of be_packet to return clears raw_bytes (the iterator then ends): %s" % ok)

    # ---------------------------------------------------------------- R5 (shared with C06-R2)
    from rules.C06 import accept_threshold
    ctx.rule("R5", "length guards before header-protection removal: both packet readers reject payloads shorter than 4 + 16 bytes "
                   "before remove_protection_of_*_packet slices `payload[4..4+sample_len]`")
    for name in ("qbase::packet::io::be_payload", "qbase::packet::io::be_packet"):
        b = ctx.anchor("R5", name)
        if b:
            r = accept_threshold(b, "UnderSampling")
            ok = len(r) == 1 and r[0][0] is not None and r[0][0] >= 20
            ctx.ob("R5", "%s|payload >= 20 before sampling" % b.short, ok, b.where(),
                   "guard(s) leading to UnderSampling: %s; remove_protection_of_*_packet does split_at_mut(4) and "
                   "sample[..16] without its own check, so a smaller threshold is an out-of-bounds panic on an "
                   "unauthenticated datagram" % [(x[0], x[1]) for x in r])
    # ---------------------------------------------------------------- R7: panicking slice APIs on the decode slice
    ctx.rule("R7", "slicing by length on the decode slice: every call to a slice API that panics when the slice is too short "
                   "(split_at, copy_from_slice, split_to, indexing by range, try_into to an array + unwrap) is dominated by a "
                   "length comparison of that slice, or listed in the reviewed table with the reason the length is known")
    SLICE_RX = re.compile(r"slice::<impl \[T\]>::(split_at|split_at_mut|copy_from_slice|split_first|split_last)$|"
                          r"ops::index::Index(Mut)?<.*> for .*>::index(_mut)?$|BytesMut::(split_to|advance|split_off)$|"
                          r"bytes::Bytes::(split_to|slice|advance|split_off)$|Buf::(advance|copy_to_slice)$")
    SLICE_TABLE = {
        "qbase::cid::connection_id::ConnectionId::from_slice": "callers bound the length to <= 20 first (be_connection_id_with_len, be_parameter_value); see R2 table",
        "<qbase::cid::connection_id::ConnectionId as core::ops::deref::Deref>::deref": "type invariant len <= 20, established by from_slice/be_connection_id",
        "qbase::frame::io::complete_frame::{closure#0}": "offsets are `raw.len() - remain.len()` of the same buffer; the body-length guards are decided by R8",
        "qbase::frame::path_challenge::PathChallengeFrame::from_slice": "fed by take(8)",
        "qbase::frame::path_response::PathResponseFrame::from_slice": "fed by take(8)",
        "qbase::packet::header::long::Retry::new": "integrity tag fed by take(16)",
        "qbase::packet::header::long::io::be_retry": "indexing a zero-length array with RangeFull",
        "qbase::packet::io::be_payload": "guarded: payload_len compared with remain.len() (IncompletePacket) before split_to / indexing",
        "qbase::param::preferred_address::be_preferred_address::{closure#0}": "fed by take(4)/take(16) inside the tuple parser",
        "qbase::param::preferred_address::be_preferred_address::{closure#1}": "fed by take(4)/take(16) inside the tuple parser",
        "qtraversal::nat::msg::TransactionId::from_slice": "fed by the 16-byte transaction id split off in be_packet",
        "qbase::packet::decrypt::remove_protection_of_long_packet": "payload >= 20 bytes is guaranteed by be_payload's UnderSampling guard (R5); payload_offset <= packet length by construction in be_payload",
        "qbase::packet::decrypt::remove_protection_of_short_packet": "payload >= 20 bytes is guaranteed by be_packet's UnderSampling guard (R5)",
        "qbase::packet::decrypt::decrypt_packet": "body_offset = payload_offset + pn length <= payload_offset + 4 <= packet length (R5)",
    }
    slice_sites = {}
    # header-protection removal and decryption work on the same untrusted bytes before authentication
    extra_roots = prog.find(r"^qbase::packet::decrypt::(remove_protection_of_long_packet|remove_protection_of_short_packet|decrypt_packet)$")
    if len(extra_roots) != 3:
        ctx.ob("R7", "anchor:qbase::packet::decrypt::*", False, "", "expected 3 pre-authentication packet functions, found %d" % len(extra_roots))
    ws7 = list(ws) + [prog.bodies[x] for x in prog.reachable_bodies(extra_roots) if x in prog.bodies and prog.bodies[x].crate in CRATES and prog.bodies[x] not in ws]
    for b in ws7:
        for i, t in b.calls():
            if not SLICE_RX.search(callee(t)):
                continue
            api = callee(t).split("::")[-1]
            # structural discharge: a dominating switch fed by a comparison involving a len() of a slice local
            guarded = False
            for sb in b.live_blocks():
                tt = b.term(sb)
                if tt["t"] != "switch" or not b.dominates(sb, i):
                    continue
                pl = op_place(tt["on"])
                if not pl or len(pl) != 1:
                    continue
                for (bb, jj, rv) in b.defs_of(pl[0]):
                    if jj != "term" and rv[0] == "bin" and rv[1] in ("Lt", "Le", "Gt", "Ge"):
                        for o in (rv[2], rv[3]):
                            if any(og[0] == "call" and re.search(r"::len$", callee(og[2])) for og in local_origins(b, o)) or \
                                    any(og[0] == "rv" and og[1][0] in ("len",) for og in local_origins(b, o)):
                                guarded = True
            slice_sites.setdefault(b.short, []).append((api, guarded, t["line"]))
    ctx.stats["R7.sites"] = {k: [(a, g) for a, g, _ in v] for k, v in sorted(slice_sites.items())}
    ctx.floor("R7", "functions with length-sensitive slice operations on the decode slice", len(slice_sites), 10)
    for fn, lst in sorted(slice_sites.items()):
        allg = all(g for _, g, _ in lst)
        reason = SLICE_TABLE.get(fn)
        b = prog.by_short[fn][0]
        ctx.ob("R7", "%s|%s" % (fn, "+".join(sorted(set(a for a, _, _ in lst)))), allg or reason is not None, b.where(lst[0][2]),
               "%d call(s) %s; dominated by a length comparison: %s; reviewed reason: %s" % (
                   len(lst), sorted(set(a for a, _, _ in lst)), allg, reason or "NONE — an attacker-chosen short input panics the task here"))
    # ---------------------------------------------------------------- R8: body slices of data-carrying frames
    ctx.rule("R8", "data-carrying frames (CRYPTO / STREAM / DATAGRAM with length): the body is sliced out of the packet "
                   "(`raw.slice(start..start+len)`, `&input[len..]`) only under `remainder.len() >= len`, where the remainder is the "
                   "nom input left after the frame header — not the whole packet buffer, which still contains the header")
    cfc = ctx.anchor("R8", "qbase::frame::io::complete_frame::{closure#0}")
    if cfc:
        sl = []
        for i, t in cfc.calls():
            nm = callee(t)
            if re.search(r"bytes::Bytes::slice$", nm) and len(t["args"]) == 2:
                q = op_place(t["args"][1])
                ty = cfc.local_ty(q[0]) if q else ""
                if "RangeFrom" in ty or "RangeFull" in ty:
                    continue   # to the end of the buffer: bounded by construction
                sl.append((i, t, "Bytes::slice"))
            elif re.search(r"ops::index::Index<.*> for \[T\]>::index$", nm):
                sl.append((i, t, "index"))
        ctx.floor("R8", "bounded body slices in complete_frame", len(sl), 6)
        for n, (i, t, api) in enumerate(sl):
            ok = False
            seen = []
            for (sw, op, x, y) in guard_chain(cfc, i):
                rx_, ry_ = value_roles(cfc, x), value_roles(cfc, y)
                seen.append("%s %s %s" % (sorted(rx_), op, sorted(ry_)))
                rem_x = rx_ == {"call:<impl [T]>::len"}
                rem_y = ry_ == {"call:<impl [T]>::len"}
                if rem_x and not rem_y and op in ("Ge", "Gt"):
                    ok = True
                if rem_y and not rem_x and op in ("Le", "Lt"):
                    ok = True
            if api == "Bytes::slice":
                # where the body starts: raw.len() - remainder.len()  (the header's actual length, whatever varint widths the peer chose)
                st_ok = False
                q_ = op_place(t["args"][1])
                for pl_ in deep_places(cfc, t["args"][1], 6):
                    for (bb_, jj_, rv_) in cfc.defs_of(pl_[0]):
                        if jj_ != "term" and rv_[0] == "bin" and rv_[1] in ("SubWithOverflow", "Sub"):
                            ra_, rb_ = value_roles(cfc, rv_[2]), value_roles(cfc, rv_[3])
                            if any("Bytes::len" in r for r in ra_) and rb_ == {"call:<impl [T]>::len"}:
                                st_ok = True
                ctx.ob("R8", "%s|Bytes::slice #%d starts at raw.len() - remainder.len()" % (cfc.short, n + 1), st_ok, cfc.where(t["line"]),
                       "the slice's lower bound derives from the measured header length: %s — a header length recomputed from the frame "
                       "(encoding_size()) assumes minimal varints; a peer that pads its Length field makes the payload start too early: "
                       "header bytes are delivered as data and the tail is cut off" % st_ok)
            ctx.ob("R8", "%s|%s #%d under remainder.len() >= body length" % (cfc.short, api, n + 1), ok, cfc.where(t["line"]),
                   "comparisons deciding this slice: %s — measuring the whole packet (Bytes::len) instead of the remainder lets a body "
                   "length that overshoots by up to the header size through, and the slice panics on attacker-chosen input" % seen[:3])
    # ---------------------------------------------------------------- R9: no allocation sized by a decoded integer
    ctx.rule("R9", "decoders do not reserve memory from a length or count they have merely parsed: no Vec / VecDeque / BytesMut / String "
                   "with_capacity / reserve in the decode crates takes an argument derived from be_varint / VarInt::into_u64 / be_uN")
    nalloc9, bad9 = 0, []
    for b9 in prog.bodies.values():
        if b9.crate != "qbase" or b9.kind in ("const", "promoted") or not re.search(r"^qbase::(frame|param|packet|cid|token|varint)", b9.short):
            continue
        for i9, t9 in b9.calls():
            if re.search(r"Vec(<.*>|::<.*>)?::(with_capacity|reserve|reserve_exact)$|VecDeque(<.*>|::<.*>)?::(with_capacity|reserve)$|"
                         r"BytesMut::(with_capacity|reserve)$|String::(with_capacity|reserve)$", callee(t9)) and t9["args"]:
                nalloc9 += 1
                for pl9 in deep_places(b9, t9["args"][-1], 6):
                    for og9 in b9.trace_local(pl9[0]):
                        if og9[0] == "call" and re.search(r"VarInt::into_u64$|VarInt::into_inner$|varint::be_varint$|be_u(8|16|32|64)$", callee(og9[2])):
                            bad9.append((b9, t9))
    ctx.stats["R9.allocation_sites_in_decoders"] = nalloc9
    seen9 = set()
    for (b9, t9) in bad9:
        if (b9.short, t9["line"]) in seen9:
            continue
        seen9.add((b9.short, t9["line"]))
        ctx.touch(b9)
        ctx.ob("R9", "%s|%s sized by a decoded integer" % (b9.short, callee(t9).split("::")[-1]), False, b9.where(t9["line"]),
               "capacity derives from a value parsed out of the packet (up to 2^62-1): `capacity overflow` panic or a multi-gigabyte reservation "
               "from one small frame")
    ctx.ob("R9", "qbase decoders|no allocation sized by a decoded integer", not bad9, "qbase/src",
           "allocation calls examined in the decode modules: %d; sized by a parsed value: %d" % (nalloc9, len(seen9)))
    # ---------------------------------------------------------------- R6: dispatcher covers what the decoder admits
    ctx.rule("R6", "every frame kind that FrameType::belongs_to admits into a packet type has a non-panicking arm in that "
                   "space's frame dispatcher (the Initial and Handshake dispatchers end in `_ => unreachable!()`)")
    FT2FRAME = {"ConnectionClose": "Close", "ResetStream": "StreamCtl", "StopSending": "StreamCtl", "MaxStreamData": "StreamCtl",
                "MaxStreams": "StreamCtl", "StreamDataBlocked": "StreamCtl", "StreamsBlocked": "StreamCtl"}
    bt = ctx.anchor("R6", "<qbase::frame::FrameType as qbase::frame::FrameFeature>::belongs_to")
    frame_variants = set((variant_names(prog, "qbase::frame::Frame") or {}).values())
    if bt:
        tb = arm_table(prog, bt, "qbase::frame::FrameType") or {}
        ctx.floor("R6", "FrameType arms in belongs_to", len(tb), 26)
        admits = {}
        for vn, arm in tb.items():
            ls = set()
            for x in arm["blocks"]:
                for st in bt.stmts(x):
                    if st[0] == "=":
                        for o in rvalue_operands(st[2]):
                            pl = op_place(o)
                            if pl and len(pl) == 1 and bt.local_name(pl[0]) in ("i", "h", "o", "l"):
                                ls.add(bt.local_name(pl[0]))
            admits[vn] = ls
        # the meaning of the four flags: each is computed from a comparison with the packet-type constant of that name
        ctx.stats["R6.belongs_to"] = {k: "".join(sorted(v)) for k, v in sorted(admits.items())}
        for sp, letter in (("initial", "i"), ("handshake", "h"), ("data", "l")):
            db = ctx.anchor("R6", "qconnection::space::%s::frame_dispathcer::{closure#0}" % sp)
            if not db:
                continue
            t3 = arm_table(prog, db, "qbase::frame::Frame") or {}
            okarms = set(vn for vn, arm in t3.items() if any(db.term(x)["t"] == "ret" for x in db.reachable_from(arm["target"])))
            for ft, ls in sorted(admits.items()):
                letters = {letter, "o"} if sp == "data" else {letter}
                if not (ls & letters):
                    continue
                fv = FT2FRAME.get(ft, ft)
                if fv not in frame_variants:
                    ctx.ob("R6", "%s|FrameType::%s maps to a Frame variant" % (sp, ft), False, bt.where(), "no Frame variant named %s (mapping table out of date): failing closed" % fv)
                    continue
                ctx.ob("R6", "%s dispatcher handles %s" % (sp, ft), fv in okarms, db.where(),
                       "belongs_to admits %s frames into %s packets; the dispatcher arm for Frame::%s %s" % (
                           ft, sp, fv, "returns normally" if fv in okarms else "is the `unreachable!` arm: a peer sending this frame panics the receive task"))
    # ---------------------------------------------------------------- R4
    fr = prog.find(r"<impl core::convert::From<qbase::frame::error::Error> for qbase::error::QuicError>::from$")
    ctx.floor("R4", "From<frame::Error> for QuicError", len(fr), 1)
    for b in fr:
        ctx.touch(b)
        tb = arm_table(prog, b, "qbase::frame::error::Error") or {}
        ctx.floor("R4", "frame::Error variants mapped", len(tb), 6)
        for vn, arm in sorted(tb.items()):
            kinds = set()
            for x in arm["blocks"]:
                for s in b.stmts(x):
                    if s[0] == "=" and s[2][0] == "agg" and s[2][1]["k"] == "adt" and s[2][1]["adt"].endswith("error::ErrorKind"):
                        kinds.add(s[2][1]["variant"])
            want = {"ProtocolViolation"} if vn == "NoFrames" else {"FrameEncoding"}
            ctx.ob("R4", "%s|%s -> %s" % (b.short.split(">::")[0][-40:], vn, "/".join(sorted(want))), kinds == want, b.where(),
                   "frame::Error::%s maps to %s" % (vn, sorted(kinds)))
    ctx.assume("the nom class table in rules/nomclass.py (streaming primitives report Incomplete, complete ones Error, verify/eof add Error)")
