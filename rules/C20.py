"""C20 — Event logging never panics for lack of context and is purely observational (structural clauses)."""
from rules.common import *

TECHNIQUE = ("static analysis: builder must-set (required fields inferred from each derive(Builder) fallible_build, setter "
             "calls must dominate build()), closure capture-kind lint on every lazily evaluated event-data closure, "
             "must-not-reach of the panicking span accessor")
LEVEL_TEXT = ("Static analysis of the type-checked MIR of /repo: for every derive(Builder) type of qevent the set of "
              "fields without a default is inferred from its generated fallible_build; at every build() call in the "
              "workspace all required setters must have been called on that builder on every path (build() is "
              "fallible_build().expect(..), and tests never evaluate the data closure because their exporter is a no-op); "
              "every `event!` data closure, which is evaluated only when logging is enabled, must not capture by mutable "
              "borrow nor mutate a capture; the event emission path must not reach the panicking Span::load. Necessary "
              "structural conditions on all paths.")
NOT_DECIDED = ["JSON schema conformance and parse-back equality of serialised events (serde value-level)",
               "equality of application-visible behaviour with logging on/off beyond absence of mutation in event closures "
               "(interior mutability is out of reach)"]


def required_fields(prog, fb):
    """fields whose None arm in fallible_build leads to an Err result"""
    req = []
    for sb in sorted(fb.live_blocks()):
        t = fb.term(sb)
        if t["t"] != "switch":
            continue
        pl = op_place(t["on"])
        if not pl or len(pl) != 1:
            continue
        fld = None
        for (bb, jj, rv) in fb.defs_of(pl[0]):
            if jj != "term" and rv[0] == "disc":
                fs = place_fields(rv[1])
                if fs and rv[1][0] == 1:
                    fld = fs[-1]
        if fld is None:
            continue
        none_t = [tgt for v, tgt in t["cases"] if int(v) == 0]
        if not none_t:
            continue
        r = fb.reachable_from(none_t, avoid={sb})
        some_t = [tgt for v, tgt in t["cases"] if int(v) == 1] or [t["else"]]
        r2 = fb.reachable_from(some_t, avoid={sb})
        only_none = r - r2
        errs = False
        for x in only_none:
            for s in fb.stmts(x):
                if s[0] == "=" and s[2][0] == "agg" and s[2][1]["k"] == "adt" and s[2][1]["adt"] == "core::result::Result" and s[2][1]["variant"] == "Err":
                    errs = True
            tt = fb.term(x)
            if tt["t"] == "call" and re.search(r"UninitializedFieldError|BuilderError", callee(tt)):
                errs = True
        if errs:
            req.append(fld)
    return req


def ref_base(body, local, depth=6):
    """the local a reference/copy chain ultimately points at"""
    cur = local
    for _ in range(depth):
        nxt = None
        for (bb, jj, rv) in body.defs_of(cur):
            if jj == "term":
                continue
            if rv[0] in ("ref", "raw") and all(e == "*" for e in rv[2][1:]):
                nxt = rv[2][0]
            elif rv[0] == "use":
                q = op_place(rv[1])
                if q is not None and all(e == "*" for e in q[1:]):
                    nxt = q[0]
        if nxt is None or nxt == cur:
            break
        cur = nxt
    return cur


_SUM = {}


def method_summary(prog, fn_short, bname, depth=4):
    """fields of builder `bname` definitely set by calling the builder method / constructor `fn_short`"""
    key = (fn_short, bname)
    if key in _SUM:
        return _SUM[key]
    _SUM[key] = set()
    out = None
    bodies = prog.by_short.get(fn_short, [])
    for c in bodies:
        rets = c.return_blocks()
        got = set()
        # direct writes to builder fields through self
        for (i_, j_, pl_, rv_, ln_) in c.assigns():
            f_, a_ = place_last_field(pl_)
            if f_ and a_ == bname and all(c.dominates(i_, r) for r in rets):
                got.add(f_)
        if depth > 0:
            # builder methods called on self / on the builder that is returned
            ret_base = None
            for (bb_, jj_, rv_) in c.defs_of(0):
                if jj_ != "term" and rv_[0] == "use" and op_place(rv_[1]) is not None:
                    ret_base = ref_base(c, op_place(rv_[1])[0])
            for i2, t2 in c.calls():
                n2 = callee(t2)
                if not all(c.dominates(i2, r) for r in rets):
                    continue
                if n2.startswith(bname + "::") and t2["args"]:
                    p2 = op_place(t2["args"][0])
                    if p2 is None:
                        continue
                    rb = ref_base(c, p2[0])
                    on_self = rb == 1 or any(o == ("arg", 1) for o in c.trace_local(p2[0])) or any(
                        o[0] == "call" and callee(o[2]).startswith(bname + "::") for o in c.trace_local(p2[0]))
                    if on_self or rb == ret_base:
                        got.add(n2.split("::")[-1])
                        got |= method_summary(prog, n2, bname, depth - 1)
        out = got if out is None else (out & got)
    _SUM[key] = out or set()
    return _SUM[key]


def have_at(prog, b, base, at_blk, bname):
    """fields set on the builder held in local `base` by calls dominating block `at_blk`"""
    have = set()
    # the call that produced the builder
    for (bb_, jj_, t_) in b.defs_of(base):
        if jj_ == "term":
            f = t_["f"]
            n_ = callee(t_)
            cands = [n_]
            if f.get("res") in ("none", "virtual"):
                # generic From<&H>: intersect over all workspace impls of the trait method producing this builder
                cands = sorted(set(prog.bodies[x].short for x in prog.trait_impls().get(f.get("orig"), []) if x in prog.bodies and prog.bodies[x].short.startswith("<" + bname + " as ")))
            acc = None
            for cn in cands:
                sm = method_summary(prog, cn, bname)
                acc = set(sm) if acc is None else (acc & sm)
            have |= (acc or set())
    for i2, t2 in b.calls():
        n2 = callee(t2)
        if not n2.startswith(bname + "::") or i2 == at_blk or not t2["args"]:
            continue
        p2 = op_place(t2["args"][0])
        if p2 is None:
            continue
        if ref_base(b, p2[0]) == base and b.dominates(i2, at_blk):
            have.add(n2.split("::")[-1])
            have |= method_summary(prog, n2, bname)
    return have


def have_field_builder(prog, b, place, bname):
    """builder stored in a struct field: intersect what every constructor of that struct had set on it"""
    fa = place_field_adts(place)
    if not fa:
        return set()
    fname, adt = fa[-1]
    if adt is None:
        return set()
    acc = None
    for c in prog.bodies.values():
        for (i_, j_, rv_, ln_) in agg_sites(c, "^" + re.escape(adt) + "$"):
            fields = rv_[1]["fields"]
            if fname not in fields:
                continue
            op = rv_[2][fields.index(fname)]
            pl = op_place(op)
            got = set()
            if pl is not None:
                got = have_at(prog, c, ref_base(c, pl[0]), i_, bname)
            acc = got if acc is None else (acc & got)
    return acc or set()


def run(ctx):
    prog = ctx.prog
    ctx.rule("R1", "no panic for lack of context: at every XBuilder::build() call all fields that fallible_build requires "
                   "have been set on every path; Span::load is not reachable from event emission")
    ctx.rule("R3", "what is logged parses back: the qlog ConnectionID parser refuses exactly the lengths a connection id cannot have "
                   "(error iff len > MAX_CID_SIZE = 20), so every id the serialiser can emit is accepted")
    ctx.rule("R4", "untagged alternatives are ordered from specific to general: in qlog's ConnectionCloseErrorCode (deserialised by "
                   "trying variants in declaration order) the free-form String variant comes after TransportError and CryptoError")
    ctx.rule("R2", "observational: event-data closures (evaluated only when a filter passes) capture nothing by mutable borrow")

    # ---------------------------------------------------------------- R1: required sets
    req = {}
    for fb in prog.find(r"^qevent::.*Builder::fallible_build$"):
        ctx.touch(fb)
        bname = fb.short[:-len("::fallible_build")]
        req[bname] = required_fields(prog, fb)
    ctx.floor("R1", "derive(Builder) types in qevent", len(req), 100)
    ctx.stats["R1.builders_with_required_fields"] = {k: v for k, v in sorted(req.items()) if v}
    n_sites = 0
    n_req_sites = 0
    for b in sorted(prog.bodies.values(), key=lambda x: x.id):
        for i, t in b.calls():
            n = callee(t)
            if not (n.startswith("qevent::") and n.endswith("Builder::build")):
                continue
            bname = n[:-len("::build")]
            if bname not in req:
                continue
            n_sites += 1
            need = req[bname]
            if not need:
                continue
            n_req_sites += 1
            ctx.touch(b)
            pl = op_place(t["args"][0])
            have = set()
            # receiver produced by a chain of builder methods returning &mut Self: walk back to the first receiver
            chain = set()
            guard_ = 0
            while pl is not None and len(pl) == 1 and guard_ < 12:
                guard_ += 1
                prod = [tt_ for (bb_, jj_, tt_) in b.defs_of(ref_base(b, pl[0])) if jj_ == "term"]
                if len(prod) == 1 and callee(prod[0]).startswith(bname + "::") and prod[0]["args"] and \
                        b.local_ty(ref_base(b, pl[0])).startswith("&"):
                    chain.add(callee(prod[0]).split("::")[-1])
                    chain |= method_summary(prog, callee(prod[0]), bname)
                    pl = op_place(prod[0]["args"][0])
                else:
                    break
            if pl is not None and len(pl) == 1 and b.kind == "closure":
                rb_ = ref_base(b, pl[0])
                for (bb_, jj_, rv_) in b.defs_of(rb_):
                    if jj_ != "term" and rv_[0] in ("use", "ref") :
                        q_ = op_place(rv_[1]) if rv_[0] == "use" else rv_[2]
                        if q_ is not None and q_[0] == 1 and any(isinstance(e, str) and e.startswith(".") for e in q_[1:]):
                            pl = q_
            if pl is not None and b.kind == "closure" and pl[0] == 1 and any(isinstance(e, str) and e.startswith(".") for e in pl[1:]):
                # a captured place: resolve `self.field` through the capture list
                idx = [e for e in pl[1:] if isinstance(e, str) and e.startswith(".")][0][1:].split(":")[0]
                caps = b.get("captures", [])
                par = prog.bodies.get(b.get("parent"))
                if idx.isdigit() and int(idx) < len(caps) and par is not None and "." in caps[int(idx)]["place"]:
                    var, fld = caps[int(idx)]["place"].split(".", 1)
                    for l_ in par.locals_named(var):
                        adt_ = par.local_ty(l_).lstrip("&").replace("mut ", "").split("<")[0].strip()
                        have = have_field_builder(prog, par, [l_, ".%s:%s" % (fld.split(".")[0], adt_)], bname)
                pl = None
            if pl is not None:
                if any(isinstance(e, str) and e.startswith(".") for e in pl[1:]):
                    have = have_field_builder(prog, b, pl, bname)
                else:
                    base = ref_base(b, pl[0])
                    # a reference to a builder stored in a field of self
                    fld = None
                    for (bb_, jj_, rv_) in b.defs_of(base):
                        if jj_ != "term" and rv_[0] in ("ref", "raw") and any(isinstance(e, str) and e.startswith(".") for e in rv_[2][1:]):
                            fld = rv_[2]
                    if fld is not None:
                        have = have_field_builder(prog, b, fld, bname)
                    else:
                        have = have_at(prog, b, base, i, bname)
            have |= chain
            missing = [f for f in need if f not in have]
            ctx.ob("R1", "%s|%s::build() has %s" % (b.short, bname.split("::")[-1], "+".join(need)), not missing, b.where(t["line"]),
                   "required (no default): %s; set on every path before build(): %s; missing: %s — build() is "
                   "fallible_build().expect(..): a missing field panics, but only when a real exporter is installed"
                   % (need, sorted(have), missing or "none"))
    ctx.stats["R1.build_sites"] = n_sites
    ctx.floor("R1", "build() call sites", n_sites, 120)
    ctx.floor("R1", "build() call sites with required fields", n_req_sites, 40)
    # Span::load must not be reachable from emission
    emit = prog.find(r"^qevent::telemetry::macro_support::(build_and_emit_event|try_load_current_span)$")
    ctx.floor("R1", "emission entry points", len(emit), 2)
    seen = prog.reachable_bodies(emit)
    bad = sorted(prog.bodies[x].short for x in seen if x in prog.bodies and re.search(r"telemetry::Span::load$", prog.bodies[x].short))
    ctx.ob("R1", "emission does not reach the panicking Span::load", not bad, "qevent/src/telemetry/macro_support.rs",
           "%d bodies reachable from event emission; panicking accessors among them: %s" % (len(seen), bad or "none"))

    # ---------------------------------------------------------------- R2
    n_cl = 0
    for b in sorted(prog.bodies.values(), key=lambda x: x.id):
        if b.kind != "closure":
            continue
        par = prog.bodies.get(b.get("parent"))
        if par is None:
            continue
        # is this closure the first argument of build_and_emit_event in its parent?
        is_data = False
        for i, t in par.calls():
            if callee(t).endswith("macro_support::build_and_emit_event") and t["args"]:
                pl = op_place(t["args"][0])
                if pl is not None:
                    for o in par.trace_local(pl[0]):
                        if o[0] == "rv" and o[1][0] == "agg" and o[1][1].get("def") == b.id:
                            is_data = True
        if not is_data:
            continue
        n_cl += 1
        ctx.touch(b)
        caps = b.get("captures", [])
        mut = []
        for c in caps:
            if not (c["kind"].startswith("ref:Mut") or c["kind"].startswith("ref:Unique")):
                continue
            # observable only if the captured variable is read again after the emission call
            used_after = False
            for i_, t_ in par.calls():
                if not callee(t_).endswith("macro_support::build_and_emit_event") or t_.get("to") is None:
                    continue
                after = par.reachable_from(t_["to"])
                roots = par.locals_named(c["var"])
                for x in after:
                    for s_ in par.stmts(x):
                        if s_[0] == "=" and any(pl_[0] in roots for pl_ in rvalue_places(s_[2])):
                            used_after = True
                    tt = par.term(x)
                    if tt["t"] == "call" and any(op_place(a) is not None and op_place(a)[0] in roots for a in tt["args"]):
                        used_after = True
            if used_after:
                mut.append(c)
        ctx.ob("R2", "%s|event data closure mutates nothing it captures" % b.short, not mut, b.where(),
               "captures: %s — the closure runs only when the exporter's filter passes, so a mutable capture makes "
               "behaviour depend on whether logging is enabled" % ([(c["place"], c["kind"]) for c in caps][:8]))
    ctx.floor("R2", "event! data closures", n_cl, 55)
    ctx.assume("derive_builder's generated fallible_build returns Err exactly for unset fields without a default")

    # ---------------------------------------------------------------- R3
    de = ctx.anchor("R3", "<qevent::quic::ConnectionID as serde_core::de::Deserialize>::deserialize")
    if de:
        errs = [i for i, t in de.calls() if re.search(r"de::Error>::custom$|Error::custom$", callee(t))]
        ctx.floor("R3", "custom error sites in ConnectionID::deserialize", len(errs), 1)
        for i in errs:
            g = guard_cmp(de, i)
            ok, why = False, "no comparison recognised"
            if g is not None:
                (sw, op, x, y) = g
                cx, cy = const_int(x), const_int(y)
                rx_, ry_ = value_roles(de, x), value_roles(de, y)
                if cy is not None and any("len" in r for r in rx_):
                    ok, why = (op == "Gt" and cy == 20) or (op == "Ge" and cy == 21), "error when len %s %d" % (op, cy)
                elif cx is not None and any("len" in r for r in ry_):
                    ok, why = (op == "Lt" and cx == 20) or (op == "Le" and cx == 21), "error when %d %s len" % (cx, op)
            ctx.ob("R3", "%s|'too long' exactly for len > 20" % de.short, ok, de.where(),
                   "%s — a 20-byte connection id (the RFC 9000 maximum, e.g. a peer's NEW_CONNECTION_ID or initial_source_connection_id) "
                   "is emitted by the serialiser but the event then fails to parse back" % why)

    # ---------------------------------------------------------------- R4
    ce = prog.adts.get("qevent::quic::ConnectionCloseErrorCode")
    if ce is None:
        ctx.ob("R4", "anchor:qevent::quic::ConnectionCloseErrorCode", False, "", "ADT not found")
    else:
        order = [v["n"] for v in ce["variants"]]
        def stringy(ty, depth=2):
            ty = ty.strip()
            if ty in ("alloc::string::String", "String"):
                return True
            a = prog.adts.get(ty)
            if a is not None and depth > 0 and a["kind"] == "struct" and len(a["variants"]) == 1 and len(a["variants"][0]["fields"]) == 1:
                return stringy(a["variants"][0]["fields"][0]["ty"], depth - 1)
            return False
        strings = [v["n"] for v in ce["variants"] if any(stringy(f["ty"]) for f in v["fields"])]
        specific = [n for n in ("TransportError", "CryptoError") if n in order]
        ok = bool(strings) and len(specific) == 2 and all(order.index(sv) > max(order.index(x) for x in specific) for sv in strings)
        ctx.ob("R4", "qevent::quic::ConnectionCloseErrorCode|String alternative after the structured ones", ok, "qevent/src/quic.rs",
               "declaration order %s; String-carrying variants %s — an untagged enum takes the first alternative that parses, and a String "
               "parses everything: placed before CryptoError it swallows `crypto_error_0x..`, so a close with a TLS alert no longer "
               "parses back to the event that was logged" % (order, strings))
