"""C08 — The receive buffer reassembles any fragment sequence (structural clauses only)."""
from rules.common import *

TECHNIQUE = ("static analysis: cursor/offset coupling on the MIR loop of RecvBuf::recv (every cut of the incoming data moves the "
             "stream-offset cursor in the same iteration), def-use of what is inserted where, guard extraction for the "
             "contiguity gate of the readers, write-site classification of nread / largest_offset")
LEVEL_TEXT = ("Static analysis of the type-checked MIR of /repo, RecvBuf only. Decided: (1) in the placement loop of recv every "
              "operation that cuts a prefix off the incoming data is on an iteration that also advances the cursor `start`; (2) every "
              "segment stored is built from that cursor and from a piece cut off the incoming data, and only such segments are "
              "stored; (3) largest_offset only grows (written as max(old, end)) and recv returns its growth since entry — the "
              "quantity flow control is charged with; (4) readers hand out a segment only under `segment.offset == nread` "
              "(try_read, try_next via is_readable, available); (5) nread (and a partially read segment's offset) advance by "
              "exactly the length handed out. These are necessary conditions of 'each byte once, in order, only the contiguous "
              "prefix'; the interval arithmetic that trims a fragment against its neighbours (how much is cut) is NOT decided.")
NOT_DECIDED = ["that the amount cut off a fragment against the previous / next segment is the overlap (interval arithmetic over all "
               "fragment multisets: needs a loop invariant over the sorted segment list — out of reach for a path-insensitive analysis)",
               "byte values (Bytes slicing is by reference; not modelled)",
               "binary-search correctness (sortedness of `segments` is the invariant the arithmetic maintains)"]

RB = "qrecovery::recv::rcvbuf::RecvBuf"


def copy_root(body, op, depth=8):
    """follow single-definition whole-local copies/moves of an operand to the local it started from"""
    p = op_place(op)
    if p is None or len(p) != 1:
        return p[0] if p else None
    l = p[0]
    for _ in range(depth):
        ds = body.defs_of(l)
        if len(ds) != 1 or ds[0][1] == "term":
            return l
        rv = ds[0][2]
        if rv[0] in ("use", "cast"):
            q = op_place(rv[1] if rv[0] == "use" else rv[2])
            if q is None or len(q) != 1:
                return l
            l = q[0]
            continue
        return l
    return l


def recv_roles(rb):
    """the roles of RecvBuf::recv's variables, found by type and use rather than by name:
    data = the Bytes parameter, offset = the u64 parameter, start (cursor) = the local handed to Segment::new_with_data as offset"""
    datas = [l for l in range(1, rb.argc + 1) if rb.local_ty(l).strip().endswith("bytes::Bytes")]
    offs = [l for l in range(1, rb.argc + 1) if rb.local_ty(l).strip() == "u64"]
    starts = set()
    for i, t in rb.calls():
        if callee(t).endswith("Segment::new_with_data") and t["args"]:
            r = copy_root(rb, t["args"][0])
            if r is not None:
                starts.add(r)
    return sorted(starts), datas, offs


def recv_cursor_coupling(ctx, rid, rb):
    starts, datas, _offs = recv_roles(rb)
    heads = sorted(set(v for u in rb.live_blocks() for v in rb.succ(u) if rb.dominates(v, u)))
    W = set(i for (i, j, p, rv, line) in rb.assigns() if len(p) == 1 and p[0] in starts and i not in (0,))
    cuts = []
    for i, t in rb.calls():
        if re.search(r"Buf>::advance$|bytes::Bytes::split_to$|bytes::Bytes::split_off$", callee(t)) and t["args"]:
            a0 = op_place(t["args"][0])
            if a0 is not None and any(jj != "term" and rv2[0] == "ref" and rv2[2][0] in datas for (bb, jj, rv2) in rb.defs_of(a0[0])):
                cuts.append((i, t))
    in_loop = [(i, t) for (i, t) in cuts if any(i in rb.reachable_from(h) and h in rb.reachable_from(i) for h in heads)]
    ctx.floor(rid, "prefix-cutting calls inside the placement loop", len(in_loop), 4)
    ctx.floor(rid, "writes of the cursor `start`", len(W), 4)
    for n, (i, t) in enumerate(in_loop):
        bad = None
        for h in heads:
            if h not in rb.reachable_from(i):
                continue
            to_c = i in rb.reachable_from(h, avoid=W) or i == h
            nxt = t.get("to")
            back = nxt is not None and i not in W and (h == nxt or h in rb.reachable_from(nxt, avoid=W))
            if to_c and back and i not in W:
                bad = h
        ctx.ob(rid, "%s|%s at cut #%d moves `start` in the same iteration" % (rb.short, callee(t).split("::")[-1], n + 1),
               bad is None, rb.where(t["line"]),
               "cut at bb%d; an iteration through it that never writes `start`: %s — the rest of the fragment would be placed at "
               "the offset of the part already consumed" % (i, "none" if bad is None else "exists (loop head bb%d)" % bad))


def run(ctx):
    prog = ctx.prog
    ctx.rule("R1", "cursor coupling: inside RecvBuf::recv's placement loop every operation that cuts a prefix off the incoming data "
                   "(advance / split_to / split_off) is on a loop iteration that also moves the stream-offset cursor `start`")
    ctx.rule("R2", "what is stored: every Segment is built from the cursor `start` and a piece cut off the incoming data; only such "
                   "segments enter `segments`")
    ctx.rule("R3", "flow-control report: largest_offset is written only as max(largest_offset, ..) and recv returns "
                   "largest_offset - (largest_offset at entry)")
    ctx.rule("R6", "one coordinate system: once the already-read prefix has been cut off, the fragment's original `offset` is not used "
                   "again — inside the placement loop every position is derived from the cursor `start` (which corresponds to the "
                   "remaining `data`)")
    ctx.rule("R7", "the cursor never starts below the read frontier: the value `start` has when the placement loop is entered is computed "
                   "from both the fragment's offset and `nread` (max), so nothing is stored below nread")
    ctx.rule("R4", "contiguity gate: readers take data out of a segment only under `segment.offset == nread`")
    ctx.rule("R5", "read cursor coupling: nread (and the offset of a partially read segment) advance by exactly the length handed out")
    rb = ctx.anchor("R1", RB + "::recv")
    if rb:
        recv_cursor_coupling(ctx, "R1", rb)
        # ------------------------------------------------------------ R2
        starts, datas = set(recv_roles(rb)[0]), set(recv_roles(rb)[1])
        news = [(i, t) for i, t in rb.calls() if callee(t).endswith("Segment::new_with_data")]
        ctx.floor("R2", "Segment::new_with_data sites in recv", len(news), 2)
        seg_locals = set()
        for (i, t) in news:
            r0 = copy_root(rb, t["args"][0])
            r1 = copy_root(rb, t["args"][1])
            piece = False
            if r1 is not None:
                for (bb, jj, rv) in rb.defs_of(r1):
                    if jj == "term" and re.search(r"Bytes::split_to$|mem::take$|Bytes::split_off$", callee(rv)) and rv["args"]:
                        a0 = op_place(rv["args"][0])
                        if a0 is not None and any(j2 != "term" and rv2[0] == "ref" and rv2[2][0] in datas for (b2, j2, rv2) in rb.defs_of(a0[0])):
                            piece = True
                    if jj != "term" and rv[0] == "use" and op_place(rv[1]) and op_place(rv[1])[0] in datas:
                        piece = True
            ok = r0 in starts and len(starts) == 1 and len(rb.defs_of(r0)) >= 3 and piece
            if len(t["dest"]) == 1:
                seg_locals.add(t["dest"][0])
            ctx.ob("R2", "%s|segment #%d = (start, piece of data)" % (rb.short, news.index((i, t)) + 1), ok, rb.where(t["line"]),
                   "offset argument is the cursor `start`: %s; data argument is a piece cut off the incoming data: %s — a segment "
                   "stored at any other offset delivers bytes at the wrong stream position" % (r0 in starts, piece))
        ins = [(i, t) for i, t in rb.calls() if re.search(r"VecDeque(<.*>|::<.*>)?::(push_front|push_back|insert)$", callee(t))]
        ctx.floor("R2", "insertions into `segments`", len(ins), 2)
        for (i, t) in ins:
            v = t["args"][-1]
            ok = copy_root(rb, v) in seg_locals or any(copy_root(rb, v) == copy_root(rb, ["m", [s]]) for s in seg_locals)
            ctx.ob("R2", "%s|%s stores a new_with_data segment" % (rb.short, callee(t).split("::")[-1]), ok, rb.where(t["line"]),
                   "inserted value comes from Segment::new_with_data: %s" % ok)
        # ------------------------------------------------------------ R3
        ws = field_writes(prog, "RecvBuf", "largest_offset", [rb])
        ctx.floor("R3", "writes of RecvBuf.largest_offset in recv", len(ws), 2)
        for (b, i, j, p, rv, line) in ws:
            mono = False
            for o in rvalue_operands(rv):
                for og in local_origins(b, o):
                    if og[0] == "call" and re.search(r"Ord::max$|cmp::max$", callee(og[2])):
                        if any(any(place_has_field(pl, "RecvBuf", "largest_offset") for pl in deep_places(b, a, 3)) for a in og[2]["args"]):
                            mono = True
            ctx.ob("R3", "%s|largest_offset = max(largest_offset, ..) #%d" % (b.short, ws.index((b, i, j, p, rv, line)) + 1), mono, b.where(line),
                   "written value is max(old value, segment end): %s" % mono)
        # the value largest_offset had on entry: a local whose only definition copies the field, in a block before every write
        prev = [l for l in range(rb.argc + 1, len(rb.locals))
                if len(rb.defs_of(l)) == 1 and rb.defs_of(l)[0][1] != "term" and rb.defs_of(l)[0][2][0] == "use" and
                op_place(rb.defs_of(l)[0][2][1]) is not None and place_has_field(op_place(rb.defs_of(l)[0][2][1]), "RecvBuf", "largest_offset")
                and rb.defs_of(l)[0][0] == 0]
        wblocks = [i for (b, i, j, p, rv, line) in ws]
        ret_ok = False
        for (i, j, p, rv, line) in rb.assigns():
            if p == [0]:
                roles = value_roles(rb, ["c", p]) if False else set()
        # the returned value: _0 = (largest_offset - previous_largest)
        for (i, j, p, rv, line) in rb.assigns():
            if p == [0] and rv[0] == "use":
                rs = value_roles(rb, rv[1])
                if any(r.startswith("diff(") and "field:RecvBuf.largest_offset" in r for r in rs):
                    ret_ok = True
        prev_ok = False
        for l in prev:
            for (bb, jj, rv) in rb.defs_of(l):
                if jj != "term" and rv[0] == "use" and op_place(rv[1]) and place_has_field(op_place(rv[1]), "RecvBuf", "largest_offset"):
                    prev_ok = all(rb.dominates(bb, w) and bb != w for w in wblocks)
        ctx.ob("R3", "%s|returns largest_offset - largest_offset@entry" % rb.short, ret_ok and prev_ok, rb.where(),
               "return value is a difference with largest_offset: %s; the subtrahend is read from largest_offset before every write: %s — "
               "this is the amount the stream and connection flow controllers are charged with" % (ret_ok, prev_ok))
    if rb:
        # ------------------------------------------------------------ R6
        heads = sorted(set(v for u in rb.live_blocks() for v in rb.succ(u) if rb.dominates(v, u)))
        in_loop = set(x for x in rb.live_blocks() if any(x in rb.reachable_from(h) and h in rb.reachable_from(x) for h in heads))
        offs = recv_roles(rb)[2]
        uses = []
        for x in sorted(in_loop):
            for s_ in rb.stmts(x):
                if s_[0] == "=":
                    for o in rvalue_operands(s_[2]):
                        q = op_place(o)
                        if q is not None and q[0] in offs:
                            uses.append((x, s_[3] if len(s_) > 3 else None))
                    for q in rvalue_places(s_[2]):
                        if q[0] in offs:
                            uses.append((x, s_[3] if len(s_) > 3 else None))
            t = rb.term(x)
            if t["t"] == "call":
                for a in t["args"]:
                    q = op_place(a)
                    if q is not None and q[0] in offs:
                        uses.append((x, t.get("line")))
        ctx.floor("R6", "blocks of the placement loop", len(in_loop), 20)
        ctx.ob("R6", "%s|the original `offset` is dead inside the placement loop" % rb.short, bool(offs) and not uses, rb.where(uses[0][1] if uses else None),
               "reads of the parameter `offset` inside the loop: %s — `data` has been advanced past the bytes already read, so only "
               "`start` names the stream position of its first byte; an overlap test computed from `offset` misses overlaps by "
               "nread - offset bytes and stores overlapping segments (the reader then stalls for good)" % (["bb%d:L%s" % u for u in uses] or "none"))
    if rb:
        # ------------------------------------------------------------ R7
        heads7 = sorted(set(v for u in rb.live_blocks() for v in rb.succ(u) if rb.dominates(v, u)))
        in_loop7 = set(x for x in rb.live_blocks() if any(x in rb.reachable_from(h) and h in rb.reachable_from(x) for h in heads7))
        st = set(recv_roles(rb)[0])
        srcs = set()
        ndefs = 0
        for l in st:
            for (bb, jj, rv) in rb.defs_of(l):
                if bb in in_loop7:
                    continue
                ndefs += 1
                ops = rv["args"] if jj == "term" else rvalue_operands(rv)
                for o in ops:
                    for pl in deep_places(rb, o, 5):
                        srcs |= set(place_fields(pl))
                        if 1 <= pl[0] <= rb.argc:
                            srcs.add("arg:offset" if pl[0] in recv_roles(rb)[2] else "arg:%d" % pl[0])
                        for og in rb.trace_local(pl[0]):
                            if og[0] == "arg":
                                srcs.add("arg:offset" if og[1] in recv_roles(rb)[2] else "arg:%d" % og[1])
        ctx.ob("R7", "%s|`start` enters the loop as a function of offset and nread" % rb.short,
               ndefs >= 1 and "nread" in srcs and "arg:offset" in srcs, rb.where(),
               "definitions of `start` before the loop: %d; they depend on: %s — if the cursor can start below nread the part of a "
               "retransmitted fragment that survives the trim is stored under an offset the reader has already passed: it is never "
               "delivered, sits at the wrong position and blocks everything behind it" % (ndefs, sorted(srcs)))
    # ---------------------------------------------------------------- R4 / R5 readers
    GATE = "field:RecvBuf.nread Eq field:Segment.offset"
    tr = ctx.anchor("R4", RB + "::try_read")
    if tr:
        takes = [(i, t) for i, t in tr.calls() if re.search(r"Bytes::split_to$|VecDeque(<.*>|::<.*>)?::pop_front$", callee(t))]
        ctx.floor("R4", "take-out sites in try_read", len(takes), 2)
        for (i, t) in takes:
            gs = guard_texts(tr, i)
            ctx.ob("R4", "%s|%s only under segment.offset == nread" % (tr.short, callee(t).split("::")[-1]), GATE in gs, tr.where(t["line"]),
                   "comparisons deciding this block: %s — data handed out from a segment that does not start at nread skips or "
                   "repeats bytes" % gs)
        # R5: nread += read ; seg.offset += read ; split_to(read)
        amt = None
        for (i, t) in takes:
            if callee(t).endswith("split_to") and len(t["args"]) == 2:
                amt = copy_root(tr, t["args"][1])
        for (adt, fld) in (("RecvBuf", "nread"), ("Segment", "offset")):
            ws = field_writes(prog, adt, fld, [tr])
            ctx.floor("R5", "writes of %s.%s in try_read" % (adt, fld), len(ws), 1)
            for (b, i, j, p, rv, line) in ws:
                ok = False
                if rv[0] == "use":
                    q = op_place(rv[1])
                    if q is not None and len(q) == 2 and q[1] == ".0":
                        for (bb, jj, rv2) in tr.defs_of(q[0]):
                            if jj != "term" and rv2[0] == "bin" and rv2[1] == "AddWithOverflow":
                                sides = [rv2[2], rv2[3]]
                                has_old = any(op_place(o) is not None and place_has_field(op_place(o), adt, fld) or
                                              any(og[0] == "place" and place_has_field(og[1], adt, fld) for og in local_origins(tr, o)) for o in sides)
                                has_amt = amt is not None and any(_amount_root(tr, o) == amt for o in sides)
                                ok = has_old and has_amt
                ctx.ob("R5", "%s|%s.%s += the length handed out" % (tr.short, adt, fld), ok, tr.where(line),
                       "the addend is the same `read` that was split off the segment: %s" % ok)
    tn = ctx.anchor("R4", RB + "::try_next")
    if tn:
        pops = [(i, t) for i, t in tn.calls() if re.search(r"VecDeque(<.*>|::<.*>)?::pop_front$", callee(t))]
        gates = [(i, t) for i, t in tn.calls() if callee(t).endswith("RecvBuf::is_readable")]
        ctx.floor("R4", "pop_front in try_next", len(pops), 1)
        for (i, t) in pops:
            ok = any(len(g["dest"]) == 1 and runs_only_when(tn, g["dest"][0], True, i) for (_, g) in gates)
            ctx.ob("R4", "%s|pop_front only when is_readable()" % tn.short, ok, tn.where(t["line"]), "guarded by is_readable() == true: %s" % ok)
        ws = field_writes(prog, "RecvBuf", "nread", [tn])
        ctx.floor("R5", "writes of RecvBuf.nread in try_next", len(ws), 1)
        for (b, i, j, p, rv, line) in ws:
            roles = set()
            for o in rvalue_operands(rv):
                roles |= value_roles(tn, o)
            ok = any(r.startswith("sum(") and "Bytes::len" in r and "field:RecvBuf.nread" in r for r in roles)
            # and the measured Bytes is the popped one
            popped = False
            for ci, ct in tn.calls():
                if callee(ct).endswith("Bytes::len") and ct["args"]:
                    for pl in deep_places(tn, ct["args"][0], 5):
                        for og in tn.trace_local(pl[0]):
                            if og[0] == "call" and re.search(r"pop_front$|Option(<.*>|::<.*>)?::unwrap$", callee(og[2])):
                                popped = True
                        if "data" in place_fields(pl):
                            popped = True
            ctx.ob("R5", "%s|nread += len(popped data)" % tn.short, ok and popped, tn.where(line),
                   "written value %s; the measured buffer is the popped segment's data: %s" % (sorted(roles), popped))
    ir = ctx.anchor("R4", RB + "::is_readable")
    if ir:
        eq = [(i, j) for (i, j, p, rv, line) in ir.assigns() if rv[0] == "bin" and rv[1] == "Eq" and
              {"field:Segment.offset", "field:RecvBuf.nread"} <= (value_roles(ir, rv[2]) | value_roles(ir, rv[3]))]
        ctx.ob("R4", "%s|compares segments[0].offset with nread" % ir.short, bool(eq), ir.where(), "equality tests found: %d" % len(eq))
    av = [b for b in prog.bodies.values() if b.short.startswith(RB + "::available::{closure")]
    ctx.floor("R4", "closures of RecvBuf::available", len(av), 1)
    for b in av[:1]:
        ctx.touch(b)
        eq = [1 for (i, j, p, rv, line) in b.assigns() if rv[0] == "bin" and rv[1] == "Eq" and
              any("Segment.offset" in r for r in (value_roles(b, rv[2]) | value_roles(b, rv[3])))]
        ctx.ob("R4", "%s|extends the contiguous end only while seg.offset == running offset" % b.short, bool(eq), b.where(), "equality tests: %d" % len(eq))
    ctx.assume("`segments` is sorted by offset and non-overlapping on entry to recv (the invariant the undecided trimming arithmetic maintains)")
    ctx.assume("Bytes::split_to / advance / split_off cut exactly the requested length (bytes crate contract)")


def _amount_root(body, o):
    """root local of an amount operand, looking through integer casts"""
    p = op_place(o)
    if p is None or len(p) != 1:
        return None
    l = p[0]
    for _ in range(6):
        ds = body.defs_of(l)
        if len(ds) != 1 or ds[0][1] == "term":
            return l
        rv = ds[0][2]
        q = None
        if rv[0] == "use":
            q = op_place(rv[1])
        elif rv[0] == "cast":
            q = op_place(rv[2])
        if q is None or len(q) != 1:
            return l
        l = q[0]
    return l
