"""C06 — Packet protection: nothing is delivered from an unauthenticated packet (structural clauses)."""
from rules.common import *

TECHNIQUE = ("static analysis: who-may-construct + dominance (PlainPacket built only after header-protection removal, "
             "packet-number acceptance and AEAD success), ADT privacy facts, must-not-reach of key-state writers before "
             "authentication, guard extraction at the receive-side key update, threshold agreement between the writer's minimum and the reader's sampling guards")
LEVEL_TEXT = ("Static analysis of the type-checked MIR of /repo: a PlainPacket (the only type frames are read from) is "
              "constructed only in CipherPacket::decrypt_long_packet/decrypt_short_packet, on paths where removing header "
              "protection returned Ok(Some), the packet-number decoder returned Ok and decrypt_packet returned Ok; its "
              "fields are private so no other module can forge one; frames are read only from PlainPacket::body(); no call "
              "made before AEAD success may reach a writer of the 1-RTT key state; the receive-side key update is guarded by both "
              "`phase differs` and `no key retained for that phase`; the reader's header-protection sampling "
              "guards accept exactly the payload sizes the writer guarantees (>= 20 bytes = 4 + 16-byte sample). Necessary "
              "structural conditions; bit-for-bit round trip and rejection of every corruption are AEAD properties not decided.")
NOT_DECIDED = ["bit-for-bit recovery of header, packet number, key phase and payload (AEAD / header-protection arithmetic)",
               "rejection of every modified packet (AEAD security)", "offset arithmetic agreement between writer and reader "
               "(PacketLayout vs payload_offset/body_offset): value-level"]

PKT = "qinterface::component::route::packet"


def accept_threshold(body, err_variant):
    """for `if len OP C { return Err(err_variant) }`: smallest len that is accepted, with the comparison used"""
    errs = [i for (i, j, rv, line) in agg_sites(body, r"packet::error::Error$", err_variant)]
    res = []
    for sb in body.live_blocks():
        t = body.term(sb)
        if t["t"] != "switch":
            continue
        pl = op_place(t["on"])
        if not pl or len(pl) != 1:
            continue
        for (bb, jj, rv) in body.defs_of(pl[0]):
            if jj == "term" or rv[0] != "bin" or rv[1] not in ("Lt", "Le", "Gt", "Ge"):
                continue
            c = const_int(rv[3])
            if c is None:
                continue
            tr, fa = switch_edges_on_local(body, sb)
            for e in errs:
                on_true = e in body.reachable_from(list(tr)) and e not in body.reachable_from(list(fa))
                on_false = e in body.reachable_from(list(fa)) and e not in body.reachable_from(list(tr))
                if not (on_true or on_false):
                    continue
                op = rv[1]
                if on_false:
                    op = {"Lt": "Ge", "Le": "Gt", "Gt": "Le", "Ge": "Lt"}[op]
                # reject iff len op c  => accept threshold
                thr = {"Lt": c, "Le": c + 1}.get(op)
                res.append((thr, "%s %d" % (op, c), sb))
    return res


def run(ctx):
    prog = ctx.prog
    ctx.rule("R1", "authenticate before dispatch: PlainPacket is built only after remove_protection Ok(Some), pn_decoder Ok and "
                   "decrypt_packet Ok; its fields are private; frames are read only from PlainPacket::body()")
    ctx.rule("R2", "sampling-guard agreement: the reader accepts exactly payloads >= 20 bytes (4 + 16-byte sample), the minimum the writer guarantees")
    ctx.rule("R3", "no key-state mutation before authentication in decrypt_short_packet")
    ctx.rule("R5", "a key update replaces both directions together: OneRttPacketKeys::update toggles the phase and installs the send key "
                   "and the receive key of the same generation (both taken from one next_packet_keys() result) on every path")
    ctx.rule("R6", "header form and bit masks agree: the long-header protect / unprotect functions interpret the first byte with "
                   "LongSpecificBits (reserved 0x0c, pn length 0x03) and the short-header ones with ShortSpecificBits (reserved 0x18, key "
                   "phase 0x04), on both the sending and the receiving side")
    ctx.rule("R7", "retiring old keys discards the other phase: OneRttPacketKeys::phase_out takes remote[(!cur_phase).as_index()] — the "
                   "index derives from the negated current phase")
    ctx.rule("R4", "a key update on receipt happens only for a key phase that differs from the current one AND for which no key "
                   "is retained: the previous generation's key survives late (reordered) packets of the old phase")

    # ---------------------------------------------------------------- R1
    ctors = [(b, i, j, rv, line) for b in prog.bodies.values() for (i, j, rv, line) in agg_sites(b, "^" + re.escape(PKT) + r"::PlainPacket$")]
    names = sorted(set(b.short for b, _, _, _, _ in ctors))
    ctx.ob("R1", "PlainPacket constructed only by the two decrypt functions",
           names == [PKT + "::CipherPacket::decrypt_long_packet", PKT + "::CipherPacket::decrypt_short_packet"], "qinterface/src/component/route/packet.rs",
           "constructors: %s" % names)
    for (b, i, j, rv, line) in ctors:
        ctx.touch(b)
        checks = [(r"decrypt::remove_protection_of_(long|short)_packet$", "header protection removed"),
                  (r"decrypt::decrypt_packet$", "AEAD authentication succeeded")]
        for rx, what in checks:
            cb = call_blocks(b, rx)
            ok = bool(cb) and any(guarded_by_ok(b, c, i) for c in cb)
            ctx.ob("R1", "%s|PlainPacket only after: %s" % (b.short.split("::")[-1], what), ok, b.where(line),
                   "construction at bb%d guarded by the success edge of %s: %s" % (i, cb, ok))
        # packet-number acceptance: an indirect call of the pn_decoder argument (arg 4)
        pn = [i2 for i2, t in b.calls() if t["f"].get("res") != "item" and t["args"] and
              (any(o == ("arg", 4) for o in local_origins(b, t["args"][0])) or "FnOnce" in callee_orig(t) or "call_once" in callee(t))]
        ok = bool(pn) and any(guarded_by_ok(b, c, i) for c in pn)
        ctx.ob("R1", "%s|PlainPacket only after: packet number accepted" % b.short.split("::")[-1], ok, b.where(line),
               "construction guarded by the Ok edge of the pn_decoder call %s: %s (duplicate / too-old numbers are rejected "
               "before the packet is accepted; the decoder is RcvdJournal::decode_pn, C10-R2)" % (pn, ok))
    pp = prog.adts.get(PKT + "::PlainPacket")
    if pp is None:
        ctx.ob("R1", "anchor:PlainPacket", False, "", "ADT not found")
    else:
        pubf = [f["n"] for f in pp["variants"][0]["fields"] if f["pub"]]
        ctx.ob("R1", "PlainPacket fields are private", not pubf, "qinterface/src/component/route/packet.rs",
               "public fields: %s (a public field would let other modules build or alter a 'decrypted' packet)" % (pubf or "none"))
    rp = ctx.anchor("R1", "qconnection::space::read_plain_packet")
    if rp:
        ok = False
        for i, t in rp.calls():
            if callee(t).endswith("frame::FrameReader::new"):
                ok = any(o[0] == "call" and callee(o[2]).endswith("PlainPacket::body") for o in local_origins(rp, t["args"][0]))
        ctx.ob("R1", "%s|frames are read from PlainPacket::body()" % rp.short, ok, rp.where(), "FrameReader::new(packet.body(), ..): %s" % ok)

    # ---------------------------------------------------------------- R2
    thr = {}
    for name in ("qbase::packet::io::be_payload", "qbase::packet::io::be_packet"):
        b = ctx.anchor("R2", name)
        if b:
            r = accept_threshold(b, "UnderSampling")
            ctx.ob("R2", "%s|sampling guard found" % b.short, len(r) == 1, b.where(), "guards leading to UnderSampling: %s" % [(x[0], x[1]) for x in r])
            if len(r) == 1:
                thr[name] = r[0]
    w = None
    pb = ctx.anchor("R2", "<qbase::packet::io::PadTo20 as qbase::packet::io::Package<P>>::dump")
    if pb:
        for (i, j, p, rv, line) in pb.assigns():
            if rv[0] == "bin" and rv[1] == "SubWithOverflow" and const_int(rv[2]) is not None:
                w = const_int(rv[2])
    ab = ctx.anchor("R2", "<qbase::packet::io::PacketWriter as qbase::packet::io::AssemblePacket>::encrypt_and_protect_packet")
    wa = None
    if ab:
        for (i, j, p, rv, line) in ab.assigns():
            if rv[0] == "bin" and rv[1] == "Ge" and const_int(rv[3]) is not None:
                wa = const_int(rv[3])
    ctx.ob("R2", "writer guarantees at least 20 bytes to sample", w == 20 and wa == 20, "qbase/src/packet/io.rs",
           "PadTo20 pads to %s; encrypt_and_protect_packet asserts payload + tag >= %s (RFC 9001 §5.4.2: 4 bytes of packet "
           "number space + 16-byte sample)" % (w, wa))
    for name, (t, desc, sb) in sorted(thr.items()):
        ctx.ob("R2", "%s|reader accepts exactly what the writer guarantees" % name, t == 20, "qbase/src/packet/io.rs",
               "rejects when len %s, i.e. accepts len >= %s; writer minimum %s; header-protection removal needs 4 + 16 = 20 — a "
               "lower threshold lets remove_protection slice past the buffer (panic on a short packet), a higher one drops "
               "valid minimum-size packets" % (desc, t, w))

    # ---------------------------------------------------------------- R3
    ds = ctx.anchor("R3", PKT + "::CipherPacket::decrypt_short_packet")
    if ds:
        dec = call_blocks(ds, r"decrypt::decrypt_packet$")
        writers = set()
        for (b, i, j, p, rv, line) in (field_writes(prog, "OneRttPacketKeys", "cur_phase") + field_writes(prog, "OneRttPacketKeys", "local") +
                                       field_writes(prog, "OneRttPacketKeys", "remote")):
            if not b.short.endswith("::new"):
                writers.add(b.id)
        # indexed writes (`self.remote[i] = ..`) and mutation through `&mut self.cur_phase` handed to a call
        for b in prog.bodies.values():
            if b.crate != "qbase" or b.kind in ("const", "promoted") or b.short.endswith("::new"):
                continue
            for (i, j, p, rv, line) in b.assigns():
                if any(place_has_field(p, "OneRttPacketKeys", f) for f in ("cur_phase", "local", "remote")):
                    writers.add(b.id)
                if rv[0] == "ref" and len(rv) > 2 and rv[1] in ("mut", "Mut", "mutable") and \
                        any(place_has_field(rv[2], "OneRttPacketKeys", f) for f in ("cur_phase", "local", "remote")):
                    writers.add(b.id)
        pre = []
        for i, t in ds.calls():
            if dec and i != dec[0] and dec[0] in ds.reachable_from(i):
                cb = prog.bodies.get(t["f"].get("def", ""))
                if cb is not None:
                    seen = prog.reachable_bodies([cb], cha=False)
                    hit = sorted(prog.bodies[x].short for x in seen if x in writers)
                    if hit:
                        pre.append((callee(t), hit))
        ctx.stats["R3.key_state_writers"] = sorted(prog.bodies[x].short for x in writers)
        ctx.ob("R3", "%s|no 1-RTT key-state write before AEAD success" % ds.short, not pre, ds.where(),
               "calls made before decrypt_packet that reach writers of OneRttPacketKeys.{cur_phase,local,remote}: %s — the key "
               "phase bit is only header-protected, not authenticated: a forged packet with a flipped key-phase bit rotates "
               "the local and remote keys before its tag is checked" % (pre or "none"))
    # ---------------------------------------------------------------- R4
    gr = ctx.anchor("R4", "qbase::packet::keys::OneRttPacketKeys::get_remote")
    if gr:
        ups = call_blocks(gr, r"OneRttPacketKeys::update$")
        ctx.floor("R4", "update() call sites in get_remote", len(ups), 1)

        def guarded(call_blk, side, target):
            """target runs only on the `side` outcome of the bool-returning call"""
            oe = outcome_edges(gr, call_blk)
            if oe is None or not gr.dominates(call_blk, target):
                return False
            other = oe["err"] if side == "ok" else oe["ok"]
            return bool(oe[side]) and target not in gr.reachable_from(list(other), avoid={call_blk})
        phase_tests, none_tests = [], []
        for i, t in gr.calls():
            nm = callee(t)
            if re.search(r"cmp::PartialEq(<.*>)?::(ne|eq)$|PartialEq>::(ne|eq)$", nm) and len(t["args"]) == 2:
                roles = set()
                for a in t["args"]:
                    for pl in deep_places(gr, a, 4):
                        roles |= set(place_fields(pl))
                        roles |= set("arg%d" % og[1] for og in gr.trace_local(pl[0]) if og[0] == "arg")
                if "cur_phase" in roles and "arg2" in roles:
                    phase_tests.append((i, "ok" if nm.endswith("ne") else "err"))
            m_ = re.search(r"option::Option(<.*>|::<.*>)?::(is_none|is_some)$", nm)
            if m_ and t["args"] and len(t["dest"]) == 1:
                if any("remote" in place_fields(pl) for pl in deep_places(gr, t["args"][0], 4)):
                    none_tests.append((t["dest"][0], m_.group(2) == "is_none"))
        # `match self.remote[i] { None => .. }` / `if let None = ..`
        disc_none = []
        for (i, j, p, rv, line) in gr.assigns():
            if rv[0] == "disc" and "remote" in place_fields(rv[1]) and len(p) == 1:
                for sbk in gr.live_blocks():
                    tt = gr.term(sbk)
                    if tt["t"] == "switch" and op_place(tt["on"]) == p:
                        none_edge = set(tgt for v, tgt in tt["cases"] if int(v) == 0)
                        some_edge = set(gr.succ(sbk)) - none_edge
                        disc_none.append((sbk, none_edge, some_edge))
        for u in ups:
            ok_phase = any(guarded(i, side, u) for (i, side) in phase_tests)
            ok_none = any(runs_only_when(gr, l, is_none, u) for (l, is_none) in none_tests) or \
                any(gr.dominates(sbk, u) and bool(ne) and u not in gr.reachable_from(list(se), avoid={sbk}) for (sbk, ne, se) in disc_none)
            ctx.ob("R4", "%s|update() only for a different phase with no retained key" % gr.short, ok_phase and ok_none, gr.where(gr.term(u)["line"]),
                   "update() at bb%d: under `key_phase != cur_phase`: %s (tests at %s); under `remote[phase].is_none()`: %s (tests at %s) — "
                   "without the second condition a late packet of the previous phase (reordering), or the next genuine packet after one "
                   "forged phase bit, rotates the keys again: the retained key is overwritten and both directions lose sync for good"
                   % (u, ok_phase, [i for i, _ in phase_tests], ok_none, len(none_tests) + len(disc_none)))
    # ---------------------------------------------------------------- R5
    up = ctx.anchor("R5", "qbase::packet::keys::OneRttPacketKeys::update")
    if up:
        nk = [(i, t) for i, t in up.calls() if re.search(r"next_packet_keys$", callee(t))]
        tg = call_blocks(up, r"Toggle(<.*>|::<.*>)?::toggle$")
        rets = up.return_blocks()
        def written_from_keyset(field, part):
            ws = [(up, i, j, p, rv, line) for (i, j, p, rv, line) in up.assigns() if place_has_field(p, "OneRttPacketKeys", field)]
            good = []
            for (b, i, j, p, rv, line) in ws:
                srcs = set()
                for o in rvalue_operands(rv):
                    for pl in deep_places(up, o, 6):
                        srcs |= set(place_fields(pl))
                        for og in up.trace_local(pl[0]):
                            if og[0] == "call" and re.search(r"next_packet_keys$", callee(og[2])):
                                srcs.add("<next_packet_keys>")
                if part in srcs or "<next_packet_keys>" in srcs:
                    good.append(i)
            return ws, good
        wl, gl = written_from_keyset("local", "local")
        wr_, gr = written_from_keyset("remote", "remote")
        every_path = lambda blks: bool(blks) and up.must_pass(rets, set(blks))
        ctx.ob("R5", "%s|installs the next send key" % up.short, len(nk) == 1 and every_path(gl), up.where(),
               "writes of .local from the key set: %s (every path: %s) — without it the endpoint announces the new key phase but keeps "
               "encrypting with the previous generation: the peer selects the new key, authentication fails and every 1-RTT packet "
               "after the first key update is discarded" % (gl, every_path(gl)))
        ctx.ob("R5", "%s|installs the next receive key" % up.short, len(nk) == 1 and every_path(gr), up.where(),
               "writes of .remote[..] from the key set: %s (every path: %s)" % (gr, every_path(gr)))
        ctx.ob("R5", "%s|toggles the key phase" % up.short, every_path(tg), up.where(), "cur_phase.toggle() on every path: %s" % every_path(tg))
    # ---------------------------------------------------------------- R6
    FORMS = {"qbase::packet::decrypt::remove_protection_of_long_packet": "Long", "qbase::packet::decrypt::remove_protection_of_short_packet": "Short",
             "qbase::packet::encrypt::encode_long_first_byte": "Long", "qbase::packet::encrypt::encode_short_first_byte": "Short"}
    for fname, form in FORMS.items():
        fb = ctx.anchor("R6", fname)
        if not fb:
            continue
        used = set()
        for l_ in fb.locals:
            m_ = re.search(r"type::SpecificBits<(\d+)>|signal::SpecificBits<(\d+)>|SpecificBits<(\d+)>", l_["ty"])
            if m_:
                v_ = int([g for g in m_.groups() if g][0])
                used.add({12: "Long", 24: "Short"}.get(v_, "mask %#x" % v_))
        ctx.ob("R6", "%s|first byte read as %sSpecificBits only" % (fb.short, form), used == {form}, fb.where(),
               "bit-mask types used: %s — with the other form's mask the reserved-bit check tests the wrong bits (a long-header type bit is "
               "taken for a reserved bit: every 0-RTT packet is refused) and the packet-number length is read from the wrong place"
               % sorted(used))
    # ---------------------------------------------------------------- R7
    po = ctx.anchor("R7", "qbase::packet::keys::OneRttPacketKeys::phase_out")
    if po:
        takes = [(i, t) for i, t in po.calls() if re.search(r"option::Option(<.*>|::<.*>)?::take$", callee(t))]
        ctx.floor("R7", "take() in phase_out", len(takes), 1)
        for (i, t) in takes:
            negated = False
            for pl in deep_places(po, t["args"][0], 4):
                for e in pl[1:]:
                    if isinstance(e, str) and e.startswith("[_"):
                        idx = int(e[2:-1])
                        for q in deep_places(po, ["c", [idx]], 6):
                            for og in po.trace_local(q[0]):
                                if og[0] == "call" and re.search(r"ops::bit::Not>::not$", callee(og[2])):
                                    negated = True
            ctx.ob("R7", "%s|discards the key of the phase that is NOT current" % po.short, negated, po.where(t["line"]),
                   "index of the discarded slot derives from !cur_phase: %s — discarding remote[cur_phase] removes the key in use: the next "
                   "packet of the current phase panics get_remote's unwrap, and the stale key left behind hides the peer's next update"
                   % negated)
    ctx.assume("HeaderProtectionKey::sample_len() == 16 for every QUIC v1 cipher suite (RFC 9001 §5.4)")
    ctx.assume("decrypt_packet returns Ok only if the AEAD tag verifies (rustls/ring contract)")
