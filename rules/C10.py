"""C10 — Acknowledgement bookkeeping is truthful in both directions (structural clauses)."""
from rules.common import *

TECHNIQUE = "static analysis: finite state-transition tables extracted from MIR match arms + edge-dominance on the resolved CFG"
LEVEL_TEXT = ("Static analysis of the type-checked MIR of /repo: the per-packet state machines of the sent and received "
              "journals are read as finite tables (variant -> next state, reported count) and compared with the "
              "transitions the property needs (acked once, never lost after ack, only received numbers acknowledged, "
              "duplicates rejected); packet numbers recorded as received are shown to come only from authenticated "
              "packets. Decides these necessary structural conditions for every path of the compiled code; does not "
              "decide the range/gap arithmetic of ACK generation.")
NOT_DECIDED = ["completeness of generated ACK ranges and the running capacity subtraction in gen_ack_frame_util (only the "
               "range-count boundary table is decided, R3)",
               "frame-offset arithmetic of SentJournal (which frames belong to which packet)",
               "that an ACK frame always fits: relies on C05-R2 size agreement for AckFrame"]

SENT = "qrecovery::journal::sent::SentPktState"
RCVD = "qrecovery::journal::rcvd::State"


def run(ctx):
    prog = ctx.prog
    ctx.rule("R1", "state-transition tables: be_acked (Flighting|Retransmitted -> Acked, report nframes; Acked|Skipped -> "
                   "unchanged, report 0), maybe_lost (Flighting -> Retransmitted; Acked|Skipped -> unchanged, 0), "
                   "track_packet_in_ack_frame (Empty -> false, no state change), could_expire (PacketReceived|AckSent -> false)")
    ctx.rule("R3", "ACK-frame capacity accounting: the extra bytes charged when the Ack Range Count grows are charged exactly at the "
                   "varint boundaries (count 63 -> +1, 16383 -> +2, 2^30-1 -> +4): table extracted from the guards of "
                   "range_count_size_increment")
    ctx.rule("R4", "received stays received: no function of the receive journal writes State::Empty (= never received) over a record; "
                   "records leave only by rotation from the front — otherwise decode_pn accepts a duplicate of a packet still inside the window")
    ctx.rule("R5", "nothing below the window is accepted: every Ok(pn) of RcvdJournal::decode_pn is under `pn >= queue.offset()` — records "
                   "that have been rotated out must stay refused (TooOld), a vacant slot below the window is not 'never received'")
    ctx.rule("R6", "a sent record's deadlines are not mixed up: at the construction of SentPktState::Flighting the value stored as "
                   "retran_time derives from the retransmission timeout and the value stored as expire_time from the expiry timeout "
                   "(same-typed positional arguments followed by def-use through SentPktState::new)")
    ctx.rule("R7", "ACK-frame capacity accounting is paired: in gen_ack_frame_util every (gap, ack) range pushed inside the fold is charged "
                   "to `capacity` on the same path (check, subtract, push) — a range that is only checked makes the running budget stale")
    ctx.rule("R2", "at-most-once acceptance: decode_pn returns Ok only when the slot is vacant or Empty; on_rcvd_pn is "
                   "fed only PlainPacket::pn() of an authenticated packet")
    # ---------------------------------------------------------------- R1
    b = ctx.anchor("R1", SENT + "::be_acked")
    if b:
        tb = arm_table(prog, b, SENT)
        ctx.floor("R1", "be_acked arms", len(tb or {}), 4)
        for vn, arm in sorted((tb or {}).items()):
            if vn in ("Flighting", "Retransmitted"):
                ok = arm["self_writes"] == {"Acked"} and any(r.startswith("dyn:") and "nframes" in r for r in arm["ret"]) \
                    and not any(not str(r).startswith("dyn:") for r in arm["ret"])
                ctx.ob("R1", "%s|%s->Acked,nframes" % (b.short, vn), ok, b.where(),
                       "arm %s: writes %s, returns %s (need: state := Acked, returns that packet's nframes)"
                       % (vn, sorted(arm["self_writes"]), sorted(arm["ret"])))
            else:
                ok = not arm["self_writes"] and arm["ret"] == {"0"}
                ctx.ob("R1", "%s|%s->unchanged,0" % (b.short, vn), ok, b.where(),
                       "arm %s: writes %s, returns %s (an already acknowledged / skipped packet must report 0 frames "
                       "and keep its state: 'reported as delivered once each')" % (vn, sorted(arm["self_writes"]), sorted(arm["ret"])))
    b = ctx.anchor("R1", SENT + "::maybe_lost")
    if b:
        tb = arm_table(prog, b, SENT)
        ctx.floor("R1", "maybe_lost arms", len(tb or {}), 4)
        for vn, arm in sorted((tb or {}).items()):
            if vn == "Flighting":
                ok = arm["self_writes"] == {"Retransmitted"} and any("nframes" in str(r) for r in arm["ret"])
                need = "state := Retransmitted, returns nframes"
            elif vn == "Retransmitted":
                ok = arm["self_writes"] <= {"Retransmitted"} and any("nframes" in str(r) for r in arm["ret"])
                need = "stays Retransmitted, returns nframes"
            else:
                ok = not arm["self_writes"] and arm["ret"] == {"0"}
                need = "an acknowledged/skipped packet is never reported lost: unchanged, returns 0"
            ctx.ob("R1", "%s|%s" % (b.short, vn), ok, b.where(),
                   "arm %s: writes %s, returns %s (need: %s)" % (vn, sorted(arm["self_writes"]), sorted(arm["ret"]), need))
    b = ctx.anchor("R1", RCVD + "::track_packet_in_ack_frame")
    if b:
        tb = arm_table(prog, b, RCVD)
        ctx.floor("R1", "track_packet_in_ack_frame arms", len(tb or {}), 4)
        for vn, arm in sorted((tb or {}).items()):
            if vn == "Empty":
                ok = arm["ret"] == {"0"} and not arm["self_writes"]
                need = "a number never received must not be acknowledged: returns false, no state change"
            else:
                ok = arm["ret"] == {"1"}
                need = "a received number still tracked is acknowledged: returns true"
            ctx.ob("R1", "%s|%s" % (b.short, vn), ok, b.where(),
                   "arm %s: returns %s writes %s (need: %s)" % (vn, sorted(arm["ret"]), sorted(arm["self_writes"]), need))
    b = ctx.anchor("R1", RCVD + "::could_expire")
    if b:
        tb = arm_table(prog, b, RCVD)
        for vn in ("PacketReceived", "AckSent"):
            arm = (tb or {}).get(vn)
            ok = arm is not None and arm["ret"] == {"0"}
            ctx.ob("R1", "%s|%s->false" % (b.short, vn), ok, b.where(),
                   "arm %s returns %s (a received, not yet peer-confirmed record must never expire, otherwise its "
                   "number could be accepted a second time)" % (vn, sorted(arm["ret"]) if arm else None))
    # ---------------------------------------------------------------- R2
    b = ctx.anchor("R2", "qrecovery::journal::rcvd::RcvdJournal::decode_pn")
    if b:
        okb = [i for (i, j, rv, line) in agg_sites(b, r"^core::result::Result$", "Ok")]
        gets = call_blocks(b, r"IndexDeque::get$")
        ctx.floor("R2", "decode_pn Ok sites", len(okb), 1)
        ctx.floor("R2", "decode_pn slot lookups", len(gets), 1)
        names = variant_names(prog, RCVD) or {}
        allowed_edges = set()
        for g in gets:
            oe = outcome_edges(b, g)
            if not oe:
                continue
            for e in oe["err"]:  # None: slot vacant
                allowed_edges.add((oe["switch"], e))
            # inside Some: a switch on the record's discriminant; only the Empty edge may lead to Ok
            for sb in b.live_blocks():
                t = b.term(sb)
                if t["t"] != "switch" or sb == oe["switch"]:
                    continue
                p = op_place(t["on"])
                if p is None or len(p) != 1:
                    continue
                for (bb, j, rv) in b.defs_of(p[0]):
                    if j != "term" and rv[0] == "disc" and RCVD in b.local_ty(rv[1][0]):
                        for v, tgt in t["cases"]:
                            if names.get(int(v)) == "Empty":
                                allowed_edges.add((sb, tgt))
        # reachability of Ok sites with the allowed edges removed
        seen = {0}
        stack = [0]
        while stack:
            x = stack.pop()
            for s in b.succ(x):
                if (x, s) in allowed_edges:
                    continue
                if s not in seen:
                    seen.add(s)
                    stack.append(s)
        for o in okb:
            ctx.ob("R2", "%s|Ok only for vacant or Empty slot" % b.short, o not in seen, b.where(),
                   "block bb%d builds Ok(pn); reachable without passing the 'slot vacant' or 'record is Empty' edge: %s "
                   "(a number whose record is PacketReceived/AckSent/AckConfirmed must be rejected as Duplicate)"
                   % (o, o in seen))
    sites = prog.call_sites(r"ArcRcvdJournal::on_rcvd_pn$")
    ctx.floor("R2", "on_rcvd_pn call sites", len(sites), 4)
    for (cb, i, t) in sites:
        ctx.touch(cb)
        origins = local_origins(cb, t["args"][1])
        ok = bool(origins) and all(o[0] == "call" and callee(o[2]).endswith("PlainPacket::pn") for o in origins)
        ctx.ob("R2", "%s|on_rcvd_pn(arg=PlainPacket::pn())" % cb.short, ok, cb.where(t["line"]),
               "packet number recorded as received comes from %s (must be the number of an authenticated PlainPacket; "
               "PlainPacket construction is decided by C06-R1)" % [o[0] + (":" + callee(o[2]) if o[0] == "call" else "") for o in origins])
    # decode_pn of the journal is the only decoder used before decryption
    sites = prog.call_sites(r"ArcRcvdJournal::decode_pn$")
    ctx.floor("R2", "decode_pn call sites", len(sites), 7)
    ctx.assume("PlainPacket values exist only after AEAD authentication (decided by C06-R1, witnessed by privacy of its fields)")
    ctx.assume("IndexDeque::get returns None exactly for numbers without a record (value-level, not decided)")
    # ---------------------------------------------------------------- R3
    inc = [b for b in prog.bodies.values() if b.short.endswith("gen_ack_frame_util::range_count_size_increment")]
    ctx.floor("R3", "range_count_size_increment bodies", len(inc), 1)
    for b in inc[:1]:
        ctx.touch(b)
        table = {}
        bad = []
        for (i, j, p, rv, line) in b.assigns():
            if p != [0] or rv[0] != "use" or const_int(rv[1]) in (None, 0):
                continue
            r = const_int(rv[1])
            g = guard_cmp(b, i)
            if g is None:
                bad.append("increment %d: no guard recognised" % r)
                continue
            (sw, op, x, y) = g
            lx, ly = lin(b, x), lin(b, y)
            if lx is None or ly is None or len(lx) != 1 or len(ly) != 1 or op != "Eq":
                bad.append("increment %d: guard is not an equality of affine forms (%s %s %s)" % (r, lx, op, ly))
                continue
            (ka, ba, ca), (kb, bb, cb) = lx[0], ly[0]
            # ka*n + ca == kb*n' + cb  with exactly one side depending on the argument
            if ka and not kb and ba == "arg:1" and (cb - ca) % ka == 0:
                table[(cb - ca) // ka] = r
            elif kb and not ka and bb == "arg:1" and (ca - cb) % kb == 0:
                table[(ca - cb) // kb] = r
            else:
                bad.append("increment %d: guard does not fix the range count (%s == %s)" % (r, lx, ly))
        want = {(1 << 6) - 1: 1, (1 << 14) - 1: 2, (1 << 30) - 1: 4}
        ctx.ob("R3", "%s|increment table equals the varint boundaries" % b.short, table == want and not bad, b.where(),
               "extracted {range count: extra bytes} = %s, expected %s%s — charging the extra byte one range late lets an ACK frame "
               "with 64 (16384) ranges exceed the space it was given" % (table, want, ("; " + "; ".join(bad)) if bad else ""))

    # ---------------------------------------------------------------- R4
    writers = []
    nb = 0
    for b in prog.bodies.values():
        if not b.short.startswith("qrecovery::journal::rcvd::") and "qrecovery::journal::rcvd::State" not in b.short:
            continue
        if b.kind in ("const", "promoted"):
            continue
        nb += 1
        for (i, j, rv, line) in agg_sites(b, r"journal::rcvd::State$", "Empty"):
            writers.append((b, line))
    ctx.floor("R4", "bodies of the receive journal module", nb, 15)
    allowed = [w for w in writers if re.search(r"core::default::Default>::default$|core::clone::Clone>::clone$", w[0].short)]
    others = [w for w in writers if w not in allowed]
    ctx.ob("R4", "qrecovery::journal::rcvd|State::Empty is only the default of a fresh slot", not others, "qrecovery/src/journal/rcvd.rs",
           "functions constructing State::Empty: %s (allowed: the derived Default used when the deque is extended over a gap, and the derived Clone)"
           % sorted(set("%s:L%s" % (w[0].short, w[1]) for w in writers)))

    # ---------------------------------------------------------------- R5
    dp = ctx.anchor("R5", "qrecovery::journal::rcvd::RcvdJournal::decode_pn")
    if dp:
        oks = ok_return_sites(dp)
        ctx.floor("R5", "Ok(..) sites of decode_pn", len(oks), 1)
        for i in oks:
            gs = []
            good = False
            for (sw, op, x, y) in guard_chain(dp, i):
                rx_, ry_ = value_roles(dp, x), value_roles(dp, y)
                gs.append("%s %s %s" % (sorted(rx_), op, sorted(ry_)))
                off_x = any("IndexDeque" in r and "offset" in r for r in rx_)
                off_y = any("IndexDeque" in r and "offset" in r for r in ry_)
                pn_x = any("PacketNumber::decode" in r for r in rx_)
                pn_y = any("PacketNumber::decode" in r for r in ry_)
                if pn_x and off_y and op in ("Ge", "Gt"):
                    good = True
                if pn_y and off_x and op in ("Le", "Lt"):
                    good = True
            ctx.ob("R5", "%s|Ok(pn) only for pn >= queue.offset()" % dp.short, good, dp.where(),
                   "comparisons deciding the Ok return: %s — IndexDeque::get returns None both above and below the window, so without "
                   "this test a delayed duplicate (or replay) of a packet whose record has been rotated out is accepted, decrypted and "
                   "its frames dispatched a second time" % gs)

    # ---------------------------------------------------------------- R6
    nw = ctx.anchor("R6", "qrecovery::journal::sent::SentPktState::new")
    if nw:
        # which parameter of new() ends up in which field
        field_of_param = {}
        for (i, j, rv, line) in agg_sites(nw, r"journal::sent::SentPktState$", "Flighting"):
            for fname, o in zip(rv[1].get("fields", []), rv[2]):
                q = op_place(o)
                if q is not None:
                    for og in nw.trace_local(q[0]):
                        if og[0] == "arg":
                            field_of_param[og[1]] = fname
        sites = prog.call_sites(r"journal::sent::SentPktState::new$")
        ctx.floor("R6", "call sites of SentPktState::new", len(sites), 1)
        for (cb, ci, ct) in sites:
            ctx.touch(cb)
            for k, a in enumerate(ct["args"]):
                fname = field_of_param.get(k + 1)
                if fname not in ("retran_time", "expire_time"):
                    continue
                want = fname.replace("_time", "_timeout")
                names = set()
                for pl in deep_places(cb, a, 6):
                    n_ = cb.local_name(pl[0])
                    if n_:
                        names.add(n_)
                    for og in cb.trace_local(pl[0]):
                        if og[0] == "arg" and cb.local_name(og[1]):
                            names.add(cb.local_name(og[1]))
                other = ("expire_timeout" if want == "retran_timeout" else "retran_timeout")
                ok = want in names and other not in names
                ctx.ob("R6", "%s|%s is computed from %s" % (cb.short, fname, want), ok, cb.where(ct["line"]),
                       "argument stored as %s derives from %s — swapped deadlines make a packet that was declared lost leave the journal "
                       "after the (short) retransmission timeout: a late ACK for it then reports nothing to the frames' owners"
                       % (fname, sorted(names)))

    # ---------------------------------------------------------------- R7
    gc = [b for b in prog.bodies.values() if re.search(r"rcvd::RcvdJournal::gen_ack_frame_util::\{closure#\d+\}$", b.short)]
    folds = [b for b in gc if call_blocks(b, r"Vec(<.*>|::<.*>)?::push$")]
    ctx.floor("R7", "closures of gen_ack_frame_util that push a range", len(folds), 1)
    for b in folds:
        ctx.touch(b)
        caps = b.get("captures", []) or []
        cap_idx = [k for k, c in enumerate(caps) if c.get("var") == "capacity"]
        pushes = call_blocks(b, r"Vec(<.*>|::<.*>)?::push$")
        # writes through the captured `capacity` (a by-mut-ref capture: field .k of the closure environment, dereferenced)
        wr = []
        for (i, j, p, rv, line) in b.assigns():
            if len(p) >= 3 and p[0] == 1 and "*" in p[1:]:
                for e in p[1:]:
                    if isinstance(e, str) and e.startswith("."):
                        k = e[1:].split(":")[0]
                        if k.isdigit() and int(k) in cap_idx and rv[0] in ("use", "bin"):
                            wr.append(i)
        # ... or through a local that copies the captured reference: `_t = (*_1).k; (*_t) = ..`
        for (i, j, p, rv, line) in b.assigns():
            if len(p) == 2 and p[1] == "*" and rv[0] in ("use", "bin"):
                for (bb, jj, rv2) in b.defs_of(p[0]):
                    if jj != "term" and rv2[0] == "use":
                        q = op_place(rv2[1])
                        if q is not None and q[0] == 1:
                            for e in q[1:]:
                                if isinstance(e, str) and e.startswith(".") and e[1:].split(":")[0].isdigit() and int(e[1:].split(":")[0]) in cap_idx:
                                    wr.append(i)
        for pb in pushes:
            ok = any(b.dominates(w, pb) for w in wr)
            ctx.ob("R7", "%s|the pushed range is charged to capacity" % b.short, ok, b.where(b.term(pb)["line"]),
                   "writes of the captured `capacity`: %s; one of them dominates the push at bb%d: %s — every later range is otherwise checked "
                   "against the budget before any range was added: the frame can exceed the space it was given and overrun the packet"
                   % (sorted(set(wr)), pb, ok))
