#!/usr/bin/env python3
"""Print the prompt for a seeding sub-agent: property text + worktree only (nothing from /verif)."""
import json,sys
pid, wt = sys.argv[1], sys.argv[2]
extra = sys.argv[3] if len(sys.argv)>3 else ''
for l in open('/verif/properties.jsonl'):
    p=json.loads(l)
    if p['id']==pid: break
print(f"""You are helping test a verification tool by *seeding a realistic bug* into a Rust code base (a QUIC transport implementation, workspace `dquic`/gm-quic). You work ONLY inside the git worktree `{wt}` (a checkout of the repository at its pinned commit). Do NOT read or touch /verif or /repo; do not look for any verification tooling. There is no network: use `--offline` for every cargo command (e.g. `cargo test --offline -p qbase`). Use the default target dir inside the worktree.

The property that the code is supposed to satisfy:

  id: {p['id']}
  title: {p['title']}
  statement: {p['statement']}
  quantifier: {p['quantifier']['text']}
  why ordinary tests cannot settle it: {p['why_tests_cant']}
  relevant files: {', '.join(p['anchors']['files'])}

Your task: make ONE small, realistic source change (the kind of slip a maintainer could make in a refactor or an optimisation: a dropped check, a swapped comparison, a missing wake-up/notification, a wrong constant or wrong field, a reordered pair of statements, a forgotten bookkeeping step, two cooperating sites that each look fine alone ...) to non-test library code in the worktree such that:
  1. the workspace still compiles (`cargo build --offline --workspace`), with no new warnings that would give it away if possible;
  2. the ENTIRE existing test suite still passes, unedited: run `cargo nextest run --workspace --no-fail-fast --offline` (fallback `cargo test --workspace --no-fail-fast --offline`) and confirm 0 failures (306 tests pass on the unmodified tree);
  3. the property above is genuinely broken by the change, but only in a situation that needs something specific to manifest — a particular interleaving, a fault/loss at a particular point, a multi-step sequence of operations, an unusual input value, or two cooperating sites — NOT something ordinary use exposes at once;
  4. you provide a demonstration: a new test (unit test file or integration test, or a small program) that FAILS with your change and PASSES on the unmodified code. Verify both directions yourself (use `git stash` / `git diff > file` + `git checkout` to flip between states). The demonstration must not edit existing tests; it is a new file or a new `#[test]` appended in a new module file. Keep the demonstration separate from the seeded change.
{extra}
Deliverables, written into `{wt}/SEED_OUT/` (create it):
  - `patch.diff`   : `git diff` of ONLY the seeded source change (no demo test inside), applicable with `git apply` at the repo root;
  - `demo.diff`    : a git diff (or new files described in a diff) that adds ONLY the demonstration test/program;
  - `meta.json`    : {{"property": "{pid}", "summary": "...what was changed and why it breaks the property...", "needs": "...what specific situation is needed for it to manifest...", "files_changed": [...], "demo_cmd": "exact command that runs the demonstration", "suite_cmd": "command you ran for the full suite", "suite_result": "N passed, 0 failed", "demo_fails_with_patch": true, "demo_passes_without_patch": true}}
Before finishing, leave the worktree with BOTH the patch and the demo applied (so it can be inspected), and report briefly: what you changed (file/function), how it manifests, and the commands you ran with their results. Be efficient: restrict builds/tests to the crates you touch while iterating, and run the full suite once at the end. Do not spend time on alternatives once one candidate meets all four criteria.""")
