#!/usr/bin/env python3
"""Pretty-print MIR facts of bodies matching a regex:  tools/mir.py '<regex>' [--facts dir]"""
import sys, os, glob, json
sys.path.insert(0, os.path.join(os.path.dirname(os.path.abspath(__file__)), "..", "engine"))
from qlint import facts, framework

def opstr(b, o):
    if o[0] in "cm":
        return ("move " if o[0]=="m" else "") + facts.place_str(b, o[1])
    k = o[1]
    if "fn_name" in k: return "fn:" + k["fn_name"]
    if "named" in k: return "%s(=%s)" % (k["named"], k.get("v"))
    if "v" in k: return "%s_%s" % (k["v"], k["ty"])
    if "s" in k: return k["s"]
    return "const<%s>" % k["ty"]

def rvstr(b, rv):
    k = rv[0]
    if k == "use": return opstr(b, rv[1])
    if k == "ref": return "&%s%s" % ("mut " if rv[1]=="mut" else "", facts.place_str(b, rv[2]))
    if k == "raw": return "&raw %s" % facts.place_str(b, rv[2])
    if k == "bin": return "%s(%s, %s)" % (rv[1], opstr(b, rv[2]), opstr(b, rv[3]))
    if k == "un": return "%s(%s)" % (rv[1], opstr(b, rv[2]))
    if k == "cast": return "%s as %s [%s]" % (opstr(b, rv[2]), rv[3], rv[1])
    if k == "disc": return "discriminant(%s)" % facts.place_str(b, rv[1])
    if k == "agg":
        a = rv[1]
        h = a["k"]
        if h == "adt": h = "%s::%s" % (a["adt"], a["variant"])
        elif "def" in a: h += " " + a["def"]
        return "%s{%s}" % (h, ", ".join(opstr(b, o) for o in rv[2]))
    if k == "repeat": return "[%s; _]" % opstr(b, rv[1])
    return json.dumps(rv)

def show(b):
    print("=" * 100)
    print("%s  [%s]  %s:%s  id=%s%s" % (b.name, b.kind, b.file, b.line, b.id, "  UNELABORATED" if b.get("unelaborated") else ""))
    print("  args: " + ", ".join("_%d%s: %s" % (i, ("(%s)" % b.local_name(i)) if b.local_name(i) else "", b.local_ty(i)) for i in range(1, b.argc+1)))
    print("  ret: " + b.local_ty(0))
    if b.get("captures"): print("  captures:", b.get("captures"))
    live = b.live_blocks()
    for i, blk in enumerate(b.blocks):
        if i not in live and not "--all" in sys.argv: continue
        print("  bb%d%s:" % (i, " (cleanup)" if blk.get("cleanup") else ""))
        for s in blk["s"]:
            if s[0] == "=":
                print("      %s = %s    // L%s %s" % (facts.place_str(b, s[1]), rvstr(b, s[2]), s[3], " ".join(s[4]) if len(s)>4 else ""))
            else:
                print("      " + json.dumps(s))
        t = blk["term"]; k = t["t"]
        if k == "call":
            f = t["f"]
            nm = f.get("name") or ("?" + f.get("orig_name", "")) if f.get("res") != "indirect" else "indirect " + opstr(b, f["ptr"])
            extra = ""
            if f.get("res") not in ("item",): extra = " <%s>" % f.get("res")
            print("      %s = %s(%s)%s -> bb%s   // L%s %s%s" % (facts.place_str(b, t["dest"]), nm, ", ".join(opstr(b, a) for a in t["args"]), extra, t["to"], t["line"], " ".join(t.get("mac", [])), (" fns=" + ",".join(f["fns"])) if f.get("fns") else ""))
        elif k == "switch":
            print("      switch %s %s else bb%s   // L%s" % (opstr(b, t["on"]), " ".join("%s->bb%s" % (v, bb) for v, bb in t["cases"]), t["else"], t["line"]))
        elif k == "assert":
            print("      assert(%s == %s) [%s %s] -> bb%s // L%s %s" % (opstr(b, t["cond"]), t["expected"], t["kind"], ", ".join(opstr(b, o) for o in t["ops"]), t["to"], t["line"], " ".join(t.get("mac", []))))
        elif k == "drop":
            print("      drop(%s: %s) -> bb%s" % (facts.place_str(b, t["place"]), t["ty"], t["to"]))
        elif k == "yield":
            print("      yield -> bb%s" % t["to"])
        elif k == "goto":
            print("      goto bb%s" % t["to"])
        else:
            print("      " + k)

if __name__ == "__main__":
    d = None
    args = [a for a in sys.argv[1:] if not a.startswith("--")]
    if "--facts" in sys.argv:
        d = sys.argv[sys.argv.index("--facts") + 1]; args.remove(d)
    else:
        d, _, _ = framework.ensure_facts("default")
    prog = facts.load(d)
    for b in prog.find(args[0]):
        if "--names" in sys.argv: print(b.kind, b.short, b.where())
        else: show(b)
