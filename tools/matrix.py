#!/usr/bin/env python3
"""Detection matrix: apply every seeded / synthetic change to a scratch worktree of /repo (outside /repo and /verif),
run every check against it, record which checks report a new violation.  Writes seeded/MATRIX.json + MATRIX.md.
usage: tools/matrix.py [ids...]"""
import json, os, subprocess, sys, shutil, glob, re, time
V = os.path.dirname(os.path.dirname(os.path.abspath(__file__)))
WT = "/tmp/qlint-matrix-wt"
OUT = "/tmp/qlint-matrix-out"
def sh(cmd, **kw):
    return subprocess.run(cmd, shell=True, stdout=subprocess.PIPE, stderr=subprocess.STDOUT, text=True, **kw)
items = []
for d in sorted(glob.glob(os.path.join(V, "seeded", "C*"))):
    if os.path.exists(os.path.join(d, "patch.diff")):
        items.append((os.path.basename(d), os.path.join(d, "patch.diff"), "seeded"))
for f in sorted(glob.glob(os.path.join(V, "selftest", "*.diff"))):
    items.append((os.path.basename(f)[:-5], f, "synthetic"))
for f in sorted(glob.glob(os.path.join(V, "selftest", "*.diff.benign"))):
    items.append((os.path.basename(f)[:-12], f, "benign"))
if len(sys.argv) > 1:
    items = [it for it in items if it[0] in sys.argv[1:]]
sh("git -C /repo worktree remove --force %s" % WT); shutil.rmtree(WT, ignore_errors=True)
r = sh("git -C /repo worktree add -q --detach %s HEAD" % WT); assert r.returncode == 0, r.stdout
checks = sorted(f[:-3] for f in os.listdir(os.path.join(V, "rules")) if re.match(r"C\d+\.py$", f))
mpath = os.path.join(V, "seeded", "MATRIX.json")
res = json.load(open(mpath)) if os.path.exists(mpath) and len(sys.argv) > 1 else {}
env = dict(os.environ, QLINT_REPO=WT, QLINT_OUT=OUT, QLINT_EVIDENCE_DIR=os.path.join(OUT, "evidence"))
# the shared target dir keeps dependency artefacts; reuse the main one's dependencies by copying once
os.makedirs(OUT, exist_ok=True)
# run from a snapshot of the machinery so that rule edits made while the matrix runs cannot mix versions
SNAP = OUT + "-snap"
shutil.rmtree(SNAP, ignore_errors=True)
os.makedirs(SNAP)
for x in ("check", "known_findings.json"):
    shutil.copy2(os.path.join(V, x), os.path.join(SNAP, x))
for x in ("engine", "rules"):
    shutil.copytree(os.path.join(V, x), os.path.join(SNAP, x), ignore=shutil.ignore_patterns("__pycache__", "debug", "incremental"))
try:
    for (name, patch, kind) in items:
        t0 = time.time()
        sh("git -C %s checkout -q -- . && git -C %s clean -fdq" % (WT, WT))
        r = sh("git -C %s apply %s" % (WT, patch))
        if r.returncode != 0:
            res[name] = {"kind": kind, "error": "patch does not apply: " + r.stdout[-200:]}
            print(name, "PATCH FAILED"); continue
        hits = {}
        # one process for all checks: the fact base is extracted and loaded once
        r = sh("cd %s && ./check all --tier quick" % SNAP, env=env)
        cur = []
        for line in r.stdout.splitlines():
            m = re.match(r"^  violated (.*)$", line)
            if m:
                cur.append(m.group(1)); continue
            m = re.match(r"^(C\d+) \[quick\]:", line)
            if m:
                if cur:
                    hits[m.group(1)] = cur
                cur = []
            if "fact extraction failed" in line:
                hits = {c: ["<does not compile / extraction failed>"] for c in checks}
                break
        res[name] = {"kind": kind, "caught_by": hits, "secs": round(time.time() - t0)}
        print(name, kind, "->", {k: len(v) for k, v in hits.items()} or "MISSED", "%.0fs" % (time.time() - t0), flush=True)
        json.dump(res, open(mpath, "w"), indent=1)
finally:
    sh("git -C /repo worktree remove --force %s" % WT)
    shutil.rmtree(os.path.join(OUT, "target-default"), ignore_errors=True)
    shutil.rmtree(OUT, ignore_errors=True)
    shutil.rmtree(SNAP, ignore_errors=True)
with open(os.path.join(V, "seeded", "MATRIX.md"), "w") as f:
    f.write("# Detection matrix (seeded changes from independent sub-agents + synthetic self-test mutations)\n\n")
    f.write("| change | kind | seeded for | caught by (rule keys) |\n|---|---|---|---|\n")
    for name, r in sorted(res.items()):
        if "error" in r:
            f.write("| %s | %s | | %s |\n" % (name, r["kind"], r["error"])); continue
        if r["kind"] == "benign":
            f.write("| %s | benign | (must stay silent) | %s |\n" % (name, "silent" if not r["caught_by"] else "**FALSE ALARM** " + json.dumps(r["caught_by"])[:200])); continue
        cb = "; ".join("%s: %s" % (c, ", ".join(x.split("|")[0] + "|" + x.split("|")[-1][:60] for x in v[:2])) for c, v in sorted(r["caught_by"].items())) or "**not caught**"
        f.write("| %s | %s | %s | %s |\n" % (name, r["kind"], name.split("-")[0], cb))
print("written seeded/MATRIX.md")
