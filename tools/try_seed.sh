#!/bin/bash
# usage: try_seed.sh <seed-id> [check ids...]  — apply a seeded patch to /repo, run checks, undo it straight afterwards
ID=$1; shift
P=/verif/seeded/$ID/patch.diff
cd /repo || exit 2
git diff --quiet || { echo "/repo has uncommitted changes"; exit 2; }
git apply "$P" || { echo "patch does not apply"; exit 2; }
trap 'git -C /repo checkout -- . ' EXIT
cd /verif
CHECKS="$@"
[ -z "$CHECKS" ] && CHECKS=$(ls rules | grep '^C[0-9]*\.py$' | sed 's/\.py//')
for c in $CHECKS; do ./check $c | grep -E "^VIOLATION|^  violated|^C[0-9]+ \[" ; done
