import sys,re; sys.path.insert(0,'engine'); sys.path.insert(0,'.')
from qlint import facts, framework
from rules.common import *
d,_,_=framework.ensure_facts('default'); p=facts.load(d)
n=0; bad=[]
for b in p.bodies.values():
    if b.kind not in ('fn','assoc_fn','closure'): continue
    if b.short.split('::')[0] in ('qevent','h3_shim','qresolve','qmacro'): continue
    cx=[i for i in range(1,b.argc+1) if 'core::task::wake::Context' in b.local_ty(i)]
    if not cx: continue
    pend=[i for (i,j,rv,line) in agg_sites(b, r'^core::task::poll::Poll$','Pending')]
    if not pend: continue
    n+=1
    reg=set()
    for i,t in b.calls():
        for a in t['args']:
            pl=op_place(a)
            if pl is None: continue
            if any(q[0] in cx or any(o[0]=='arg' and o[1] in cx for o in b.trace_local(q[0])) for q in deep_places(b,a,4)): reg.add(i)
    if any(m.startswith('tokio::') or m.startswith('futures') for m in b.macros): continue
    ok=b.must_pass(pend, reg)
    if not ok: bad.append((b.short,b.where(),pend,sorted(reg)))
print(n,'poll bodies with Pending;',len(bad),'violations')
for x in bad: print(x)
