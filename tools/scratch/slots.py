import sys,re; sys.path.insert(0,'engine'); sys.path.insert(0,'.')
from qlint import facts, framework
from rules.common import *
d,_,_=framework.ensure_facts('default'); p=facts.load(d)
slots={}
for n,a in sorted(p.adts.items()):
    if n.split('::')[0] in ('qevent','h3_shim','qudp','qresolve','qmacro'): continue
    for v in a['variants']:
        for f in v['fields']:
            if 'Waker' in f['ty'] and 'ArcSendWaker' not in f['ty'] and 'SendWaker' not in f['ty']:
                slots[(n,f['n'],v['n'] if a['kind']=='enum' else None)]={'stores':set(),'wakes':set(),'ty':f['ty']}
def slot_of_places(pls):
    hits=set()
    for pl in pls:
        var=None
        for e in pl[1:]:
            if isinstance(e,str) and e.startswith('@'): var=e[1:]
            if isinstance(e,str) and e.startswith('.'):
                nm=e[1:].split(':',1)
                for (adt,fn,vn) in slots:
                    if len(nm)>1 and nm[1]==adt and nm[0]==fn and vn is None: hits.add((adt,fn,vn))
                    if vn is not None and var==vn and nm[0]==fn and adt in cur.local_ty(pl[0]): hits.add((adt,fn,vn))
    return hits
for b in p.bodies.values():
    cur=b
    if b.short.split('::')[0] in ('qevent','h3_shim','qudp','qresolve','qmacro'): continue
    for i,t in b.calls():
        n=callee(t)
        if re.search(r'task::wake::Waker::(wake|wake_by_ref)$',n):
            for s in slot_of_places(deep_places(b,t['args'][0])): slots[s]['wakes'].add(b.short)
        elif re.search(r'::(push|push_back|push_front|register|insert|replace|get_or_insert_with)$',n) and t['args']:
            for s in slot_of_places(deep_places(b,t['args'][0],3)): slots[s]['stores'].add(b.short+' ['+n.split('::')[-1]+']')
    for (i,j,pl,rv,line) in b.assigns():
        for s in slot_of_places([pl]):
            isnone = rv[0]=='agg' and rv[1].get('variant')=='None'
            if rv[0]=='use' and op_place(rv[1]) is not None and len(op_place(rv[1]))==1:
                for (bb,jj,rv2) in b.defs_of(op_place(rv[1])[0]):
                    if jj!='term' and rv2[0]=='agg' and rv2[1].get('variant')=='None': isnone=True
            slots[s]['stores'].add(b.short+(' [=None]' if isnone else ' [=]'))
        if rv[0]=='agg' and rv[1]['k']=='adt':
            for (adt,fn,vn) in slots:
                if vn is not None and rv[1]['adt']==adt and rv[1]['variant']==vn: slots[(adt,fn,vn)]['stores'].add(b.short+' [ctor]')
for s,v in slots.items():
    print(s, v['ty'][:50]); print('   stores:',sorted(v['stores'])); print('   wakes:',sorted(v['wakes']))
