#!/usr/bin/env python3
"""Regenerate the 'rules as built' section of DESIGN.md from the rule modules and the latest evidence files."""
import json, os, re, sys, importlib
V = os.path.dirname(os.path.dirname(os.path.abspath(__file__)))
sys.path.insert(0, V); sys.path.insert(0, os.path.join(V, "engine"))
props = {json.loads(l)["id"]: json.loads(l) for l in open(os.path.join(V, "properties.jsonl"))}
known = json.load(open(os.path.join(V, "known_findings.json")))
out = []
for pid in sorted(props):
    p = os.path.join(V, "rules", pid + ".py")
    if not os.path.exists(p):
        continue
    m = importlib.import_module("rules." + pid)
    ev = json.load(open(os.path.join(V, "evidence", pid + ".json")))
    cov = ev["coverage"]
    out.append("### %s — %s\n" % (pid, props[pid]["title"]))
    out.append("*Technique:* %s.\n" % m.TECHNIQUE)
    out.append("*Rules (instances on today's tree: %s; %d obligations, %d discharged):*\n" % (
        ", ".join("%s×%d" % kv for kv in sorted(cov["rule_instances"].items())), cov["obligations"], cov["discharged"]))
    for rid, txt in sorted(cov["rules"].items()):
        out.append("* **%s** %s" % (rid, txt))
    out.append("")
    out.append("*Not decided (¬D):* " + "; ".join(m.NOT_DECIDED) + ".\n")
    kf = [f for f in known["findings"] if f["property"] == pid]
    fx = [f for f in known["fixed"] if f["property"] == pid]
    if kf:
        out.append("*Known findings reported on every run:* " + "; ".join("`%s`" % f["key"] for f in kf) + ".\n")
    if fx:
        out.append("*Repaired defects (fix: commits):* " + "; ".join("%s" % f["line"][len("fixed: "):] for f in fx) + ".\n")
txt = "\n".join(out)
d = open(os.path.join(V, "DESIGN.md")).read()
a, b = "<!-- RULES-AS-BUILT:BEGIN -->", "<!-- RULES-AS-BUILT:END -->"
if a in d:
    d = d[:d.index(a) + len(a)] + "\n" + txt + "\n" + d[d.index(b):]
    open(os.path.join(V, "DESIGN.md"), "w").write(d)
    print("DESIGN.md updated (%d chars)" % len(txt))
else:
    print(txt[:2000])
