#!/usr/bin/env python3
"""Regenerate MANIFEST.json from rules/*.py (claimed) and the N/A table below, then validate it."""
import json, os, sys, importlib, subprocess
HERE = os.path.dirname(os.path.dirname(os.path.abspath(__file__)))
sys.path.insert(0, HERE); sys.path.insert(0, os.path.join(HERE, "engine"))
NA = {}
props = [json.loads(l) for l in open(os.path.join(HERE, "properties.jsonl"))]
base = json.load(open("/root/.vp/BASELINE.json"))
fixes = []
kf = os.path.join(HERE, "known_findings.json")
if os.path.exists(kf):
    for f in json.load(open(kf)).get("fixed", []):
        if f.get("commit") and f["commit"] not in fixes: fixes.append(f["commit"])
checks = []; na = []
for p in props:
    pid = p["id"]
    if os.path.exists(os.path.join(HERE, "rules", pid + ".py")) and pid not in NA:
        m = importlib.import_module("rules." + pid)
        checks.append({
            "property_id": pid,
            "quick_cmd": "./check %s --tier quick" % pid,
            "thorough_cmd": "./check %s --tier thorough" % pid,
            "evidence_file": "evidence/%s.json" % pid,
            "replay_cmd_template": "./check %s --replay {path}" % pid,
            "engine": "mirx+qlint",
            "level_claimed": {"category": "other", "text": m.LEVEL_TEXT, "design_ref": "DESIGN.md §2 " + pid},
            "level_note": "Trusted base: rustc's MIR construction and callee resolution (nightly 1.97), the mirx fact extractor, the summary tables for external crates (nom/std/bytes/atomics) and the reviewed exception tables in rules/. Decides only the structural clauses listed; the behavioural clauses under 'not_decided' in the evidence file are out of reach of static analysis.",
            "technique": m.TECHNIQUE,
        })
    else:
        na.append({"property_id": pid, "reason": NA.get(pid, "check not built yet in this session (static rules designed in DESIGN §2 %s); not claimed until the rule module exists" % pid)})
man = {
 "version": 1,
 "setup_cmd": "./setup.sh",
 "hooks": {"guard": "genmeta_gm_quic_verif",
           "enable": "(none: static analysis reads the compiled program through a rustc driver and needs no hooks in /repo)",
           "baseline_off_cmd": base["cmd"], "source_commits": fixes, "add_only": True},
 "engines": [
  {"name": "mirx", "path": "engine/mirx", "serves_properties": [c["property_id"] for c in checks],
   "kind_free_text": "rustc_private driver (nightly) run as RUSTC_WORKSPACE_WRAPPER under cargo check: dumps type-checked MIR (resolved callees, field projections with ADT names, evaluated constants, closure captures, ADTs, impls) of every workspace body as JSON facts"},
  {"name": "qlint", "path": "engine/qlint", "serves_properties": [c["property_id"] for c in checks],
   "kind_free_text": "Python static analyses over the fact base: call graph with CHA, dominators/must-pass-through, field write-site classification, nom error-class inference, table extraction from match-shaped functions, waker-protocol lint, lock-order graph; rules per property in rules/Cxx.py"},
 ],
 "checks": checks,
 "not_applicable": na,
 "notes": "All checks are static analyses of /repo's current working tree (fact base rebuilt whenever any source byte changes; memoised by content hash under out/). known_findings.json lists genuine defects recorded rather than repaired; VERIF_SEED is accepted and unused (nothing is sampled).",
}
json.dump(man, open(os.path.join(HERE, "MANIFEST.json"), "w"), indent=1)
try:
    import jsonschema
    jsonschema.validate(man, json.load(open("/root/.vp/MANIFEST.schema.json")))
    print("MANIFEST.json valid: %d checks, %d n/a" % (len(checks), len(na)))
except ImportError:
    print("MANIFEST.json written (jsonschema not importable here): %d checks, %d n/a" % (len(checks), len(na)))
