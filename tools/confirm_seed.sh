#!/bin/bash
# usage: confirm_seed.sh <worktree> <id>   — confirm a seeded change independently, then store it under /verif/seeded/<id>/
# Expects <worktree>/SEED_OUT/{patch.diff,demo.diff,meta.json} with patch+demo applied in the worktree.
set -u
WT=$1; ID=$2
cd "$WT" || exit 2
export CARGO_NET_OFFLINE=true
DEMO=$(python3 -c "import json;print(json.load(open('SEED_OUT/meta.json'))['demo_cmd'])")
LOG=SEED_OUT/confirm.log; : > $LOG
echo "demo_cmd: $DEMO" | tee -a $LOG
# state: patch + demo applied?
git apply -R --check SEED_OUT/patch.diff 2>/dev/null || { echo "patch not applied; applying" | tee -a $LOG; git apply SEED_OUT/patch.diff || exit 3; }
echo "== demo WITH patch (expect failure)" | tee -a $LOG
( eval "$DEMO" ) >> $LOG 2>&1; RC_WITH=$?
echo "rc=$RC_WITH" | tee -a $LOG
git apply -R SEED_OUT/patch.diff || exit 4
echo "== demo WITHOUT patch (expect pass)" | tee -a $LOG
( eval "$DEMO" ) >> $LOG 2>&1; RC_WITHOUT=$?
echo "rc=$RC_WITHOUT" | tee -a $LOG
git apply SEED_OUT/patch.diff || exit 5
echo "== full suite WITH patch (expect only the demo to fail)" | tee -a $LOG
cargo nextest run --workspace --no-fail-fast --offline > SEED_OUT/suite.log 2>&1
grep -E "^\s+(FAIL|SIGABRT|TIMEOUT)|Summary" SEED_OUT/suite.log | sort | uniq | tee -a $LOG
mkdir -p /verif/seeded/$ID
cp SEED_OUT/patch.diff SEED_OUT/demo.diff SEED_OUT/meta.json SEED_OUT/confirm.log /verif/seeded/$ID/
python3 - "$ID" "$RC_WITH" "$RC_WITHOUT" <<'PY'
import json,sys,re
i,rw,rwo=sys.argv[1],int(sys.argv[2]),int(sys.argv[3])
p='/verif/seeded/%s/meta.json'%i
m=json.load(open(p))
s=open('SEED_OUT/suite.log').read()
summ=re.findall(r"Summary.*",s)
fails=sorted(set(re.findall(r"^\s+(?:FAIL|SIGABRT|TIMEOUT)\s+\[[^\]]*\]\s+(?:\(\s*\d+/\d+\)\s+)?(.*)$",s,re.M)))
m['confirmed']={'demo_rc_with_patch':rw,'demo_rc_without_patch':rwo,'suite_summary':summ[-1] if summ else None,'suite_failures':fails,
  'ran':['<demo_cmd> with patch','git apply -R patch.diff; <demo_cmd>','git apply patch.diff; cargo nextest run --workspace --no-fail-fast --offline']}
json.dump(m,open(p,'w'),indent=1)
print(json.dumps(m['confirmed'],indent=1))
PY
