#!/bin/bash
# usage: extract.sh <repo> <outdir> <target-dir> [cargo feature args...]
# Runs the mirx driver over the workspace of <repo>, writing facts to <outdir>.
set -euo pipefail
REPO=$1; OUT=$2; TGT=$3; shift 3
HERE=$(cd "$(dirname "$0")" && pwd)
DRV=$HERE/mirx/target/release/mirx
[ -x "$DRV" ] || { echo "mirx driver not built (run setup)"; exit 2; }
SYSROOT=$(rustc +nightly --print sysroot)
mkdir -p "$OUT" "$TGT"
rm -f "$OUT"/*.jsonl
# cargo's freshness cache would skip the wrapper for workspace members: drop their fingerprints
if [ -d "$TGT/debug/.fingerprint" ]; then
  for m in qmacro qbase qevent qrecovery qcongestion qudp qinterface qprotocol qdatagram qconnection dquic h3-shim h3_shim qtraversal qresolve; do
    rm -rf "$TGT"/debug/.fingerprint/$m-* 
  done
fi
cd "$REPO"
export CARGO_NET_OFFLINE=true
export CARGO_INCREMENTAL=0
LD_LIBRARY_PATH=$SYSROOT/lib \
RUSTFLAGS="-Zmir-opt-level=0 -Awarnings" \
RUSTC_WORKSPACE_WRAPPER=$DRV \
MIRX_OUT=$OUT \
CARGO_TARGET_DIR=$TGT \
cargo +nightly check --offline --workspace --lib --bins "$@" > "$OUT/../extract.log" 2>&1 || { grep -B2 -A12 "panicked at\|^error" "$OUT/../extract.log" | head -60; exit 1; }
