"""Check framework: fact-base memoisation, obligations, known findings, evidence, replay."""
import fcntl
import hashlib
import json
import os
import shutil
import subprocess
import sys
import time

VERIF = os.path.dirname(os.path.dirname(os.path.dirname(os.path.abspath(__file__))))
REPO = os.environ.get("QLINT_REPO", "/repo")
OUT = os.environ.get("QLINT_OUT") or os.path.join(VERIF, "out")
EVIDENCE_DIR = os.environ.get("QLINT_EVIDENCE_DIR") or os.path.join(VERIF, "evidence")
DRIVER = os.path.join(VERIF, "engine", "mirx", "target", "release", "mirx")
REQUIRED_CRATES = ["qbase", "qrecovery", "qcongestion", "qconnection", "qdatagram", "qinterface", "qevent",
                   "qtraversal", "dquic"]
CONFIGS = {
    "default": [],
    "telemetry": ["--features", "qconnection/telemetry,dquic/telemetry,qevent/telemetry"],
}


def _sha_file(h, path):
    with open(path, "rb") as f:
        while True:
            b = f.read(1 << 16)
            if not b:
                break
            h.update(b)


def tree_hash(repo, config):
    """SHA-256 over path+content of every source-relevant file of the working tree + driver + config"""
    h = hashlib.sha256()
    for root, dirs, files in os.walk(repo):
        dirs[:] = sorted(d for d in dirs if d not in ("target", ".git", "SEED_OUT", "node_modules", "images"))
        for fn in sorted(files):
            if not (fn.endswith(".rs") or fn.endswith(".toml") or fn == "Cargo.lock"):
                continue
            p = os.path.join(root, fn)
            if os.path.islink(p):
                continue
            h.update(os.path.relpath(p, repo).encode())
            h.update(b"\0")
            _sha_file(h, p)
    h.update(b"driver\0")
    _sha_file(h, DRIVER)
    h.update(("config:" + config).encode())
    return h.hexdigest()[:20]


def ensure_facts(config="default", verbose=True):
    """Return the fact directory for the *current* working tree of REPO, extracting if needed."""
    if not os.path.exists(DRIVER):
        # build the driver on demand (setup_cmd normally does this)
        subprocess.check_call(["cargo", "+nightly", "build", "--release", "--offline"],
                              cwd=os.path.join(VERIF, "engine", "mirx"))
    os.makedirs(OUT, exist_ok=True)
    lock = open(os.path.join(OUT, ".lock"), "w")
    fcntl.flock(lock, fcntl.LOCK_EX)
    try:
        h = tree_hash(REPO, config)
        d = os.path.join(OUT, "facts-%s-%s" % (config, h))
        ok = os.path.join(d, ".complete")
        if os.path.exists(ok):
            os.utime(ok)
            return d, False, 0.0
        t0 = time.time()
        if os.path.exists(d):
            shutil.rmtree(d)
        os.makedirs(d)
        tgt = os.path.join(OUT, "target-" + config)
        cmd = [os.path.join(VERIF, "engine", "extract.sh"), REPO, d, tgt] + CONFIGS[config]
        r = subprocess.run(cmd, stdout=subprocess.PIPE, stderr=subprocess.STDOUT, text=True)
        if r.returncode != 0:
            sys.stdout.write(r.stdout[-4000:])
            shutil.rmtree(d, ignore_errors=True)
            raise RuntimeError("fact extraction failed (does /repo compile?)")
        have = set(os.path.basename(f).rsplit("-", 1)[0] for f in os.listdir(d) if f.endswith(".jsonl"))
        missing = [c for c in REQUIRED_CRATES if c not in have]
        if missing:
            shutil.rmtree(d, ignore_errors=True)
            raise RuntimeError("fact extraction incomplete, missing crates: %s" % missing)
        open(ok, "w").write(str(time.time()))
        # keep at most 3 fact bases per config
        olds = sorted((os.path.getmtime(os.path.join(OUT, x, ".complete")) if os.path.exists(
            os.path.join(OUT, x, ".complete")) else 0, x) for x in os.listdir(OUT)
                      if x.startswith("facts-%s-" % config))
        for _, x in olds[:-3]:
            shutil.rmtree(os.path.join(OUT, x), ignore_errors=True)
        return d, True, time.time() - t0
    finally:
        fcntl.flock(lock, fcntl.LOCK_UN)
        lock.close()


class Obligation:
    __slots__ = ("rule", "key", "ok", "where", "detail", "witness", "note")

    def __init__(self, rule, key, ok, where="", detail="", witness=None, note=False):
        self.rule = rule
        self.key = key
        self.ok = ok
        self.where = where
        self.detail = detail
        self.witness = witness
        self.note = note

    def to_json(self):
        d = {"rule": self.rule, "key": self.key, "verdict": "discharged" if self.ok else "VIOLATED",
             "where": self.where, "detail": self.detail}
        if self.witness is not None:
            d["witness"] = self.witness
        return d


class Ctx:
    def __init__(self, pid, tier, seed, prog, config="default"):
        self.pid = pid
        self.tier = tier
        self.seed = seed
        self.prog = prog
        self.config = config
        self.obs = []
        self.notes = []
        self.assumptions = []
        self.stats = {}
        self.functions = set()
        self.call_sites = 0
        self.rule_text = {}

    # -- recording
    def rule(self, rid, text):
        self.rule_text[rid] = text

    def ob(self, rule, key, ok, where="", detail="", witness=None):
        o = Obligation(rule, "%s|%s" % (rule, key), bool(ok), where, detail, witness)
        self.obs.append(o)
        return o

    def note(self, text):
        self.notes.append(text)

    def assume(self, text):
        if text not in self.assumptions:
            self.assumptions.append(text)

    def touch(self, body):
        if body is not None:
            self.functions.add(body.id)

    def floor(self, rule, what, count, floor):
        """fail closed: a rule instance count below what was confirmed by hand is itself a violation"""
        self.stats["%s.%s" % (rule, what)] = count
        self.ob(rule, "floor:%s" % what, count >= floor, "",
                "%s: %d instance(s) found, floor %d (fail-closed: a rule matching too few sites never passes vacuously)"
                % (what, count, floor))

    def anchor(self, rule, name, kinds=None):
        """unique body by exact name; records an anchor-missing violation and returns None otherwise"""
        l = self.prog.by_short.get(name, []) or self.prog.by_name.get(name, [])
        if kinds:
            l = [b for b in l if b.kind in kinds]
        if len(l) == 1:
            self.functions.add(l[0].id)
            return l[0]
        self.ob(rule, "anchor:%s" % name, False, "", "anchor function `%s` not found (%d candidates): "
                "the rule cannot be evaluated, failing closed" % (name, len(l)))
        return None

    def anchors(self, rule, pattern, minimum, kinds=None):
        l = self.prog.find(pattern, kinds)
        for b in l:
            self.functions.add(b.id)
        if len(l) < minimum:
            self.ob(rule, "anchor:%s" % pattern, False, "", "anchor pattern `%s` matched %d bodies, expected >= %d"
                    % (pattern, len(l), minimum))
        return l


def load_known():
    p = os.path.join(VERIF, "known_findings.json")
    if not os.path.exists(p):
        return {"findings": [], "fixed": []}
    return json.load(open(p))


def finish(ctx, t0, extract_info, level_text, not_decided):
    """Write evidence + replay files, print verdict lines, return exit code."""
    known = load_known()
    known_keys = {}
    for f in known.get("findings", []):
        if f["property"] == ctx.pid:
            known_keys[f["key"]] = f
    viol = [o for o in ctx.obs if not o.ok]
    new = [o for o in viol if o.key not in known_keys]
    old = [o for o in viol if o.key in known_keys]
    rdir = os.path.join(OUT, "replay")
    os.makedirs(rdir, exist_ok=True)
    for fn in os.listdir(rdir):
        if fn.startswith(ctx.pid + "-"):
            os.remove(os.path.join(rdir, fn))
    lines = []
    for o in old:
        lines.append("KNOWN-FINDING: property=%s %s — %s" % (ctx.pid, o.key, known_keys[o.key].get("what", o.detail)))
    for n, o in enumerate(new):
        rp = os.path.join(rdir, "%s-%d.json" % (ctx.pid, n))
        json.dump({"property": ctx.pid, "rule": o.rule, "key": o.key, "where": o.where, "detail": o.detail,
                   "witness": o.witness, "rule_text": ctx.rule_text.get(o.rule, "")}, open(rp, "w"), indent=1)
        sys.stdout.write("  violated %s\n    at %s\n    %s\n" % (o.key, o.where, o.detail))
        lines.append("VIOLATION property=%s replay=%s" % (ctx.pid, os.path.relpath(rp, VERIF)))
    rule_counts = {}
    for o in ctx.obs:
        rule_counts[o.rule] = rule_counts.get(o.rule, 0) + 1
    samples = []
    per_rule_seen = {}
    for o in ctx.obs:
        c = per_rule_seen.get(o.rule, 0)
        if c < 4 or not o.ok:
            samples.append(o.to_json())
            per_rule_seen[o.rule] = c + 1
    ev = {
        "property_id": ctx.pid,
        "tier": ctx.tier,
        "seed": ctx.seed,
        "level": "other",
        "coverage": {
            "explanation": level_text,
            "obligations": len(ctx.obs),
            "discharged": len(ctx.obs) - len(viol),
            "known_findings_reported": [o.key for o in old],
            "new_violations": [o.key for o in new],
            "rule_instances": rule_counts,
            "rules": ctx.rule_text,
            "functions_analysed": len(ctx.functions),
            "bodies_in_fact_base": len(ctx.prog.bodies) if ctx.prog else 0,
            "crates_in_fact_base": sorted(ctx.prog.crates.keys()) if ctx.prog else [],
            "measured": ctx.stats,
            "fact_base": extract_info,
            "samples": samples[:80],
            "notes": ctx.notes,
            "not_decided": not_decided,
            "exhaustive": True,
        },
        "assumptions": ctx.assumptions,
        "wall_s": round(time.time() - t0, 2),
        "violations": len(new),
    }
    os.makedirs(EVIDENCE_DIR, exist_ok=True)
    json.dump(ev, open(os.path.join(EVIDENCE_DIR, ctx.pid + ".json"), "w"), indent=1)
    sys.stdout.write("%s [%s]: %d obligations, %d discharged, %d known finding(s), %d new violation(s); %d functions; %.1fs\n"
                     % (ctx.pid, ctx.tier, len(ctx.obs), len(ctx.obs) - len(viol), len(old), len(new),
                        len(ctx.functions), time.time() - t0))
    for l in lines:
        sys.stdout.write(l + "\n")
    return 1 if new else 0
