"""Fact base loader and MIR helpers (stdlib only).

Facts are produced by engine/mirx (one JSON-lines file per crate).  This module
turns them into a `Program` with indexed bodies, ADTs, impls and a call graph,
plus CFG utilities (dominators, reachability, must-pass-through).

Representation reminders (see engine/mirx/src/main.rs):
  place    [local, proj...]   proj: "*", ".field", "@Variant", "[_n]", "[k]", "[a..b]"
  operand  ["c"|"m", place] | ["k", const]
  stmt     ["=", place, rvalue, line, macros?] | ["setdisc", place, variant, line] | ["assume", op]
  term     {"t": goto|switch|call|assert|drop|ret|unreachable|resume|abort|yield|cordrop|asm, ...}
"""
import glob
import json
import os
import pickle
import re
from collections import defaultdict, deque


# --------------------------------------------------------------------------- places / operands

def op_place(op):
    """place of a copy/move operand, else None"""
    if op and op[0] in ("c", "m"):
        return op[1]
    return None


def op_const(op):
    if op and op[0] == "k":
        return op[1]
    return None


def const_int(op):
    """integer value of a constant operand or None"""
    k = op_const(op)
    if k is not None and "v" in k:
        try:
            return int(k["v"])
        except ValueError:
            return None
    return None


def place_local(p):
    return p[0]


def _fname(e):
    return e[1:].split(":", 1)[0]


def place_fields(p):
    """names of the field projections in a place, base first"""
    return [_fname(e) for e in p[1:] if isinstance(e, str) and e.startswith(".")]


def place_field_adts(p):
    """(field name, owning ADT path or None) for each field projection, base first"""
    out = []
    for e in p[1:]:
        if isinstance(e, str) and e.startswith("."):
            parts = e[1:].split(":", 1)
            out.append((parts[0], parts[1] if len(parts) > 1 else None))
    return out


def place_has_field(p, adt, field):
    """does the place project through field `field` of ADT `adt` (adt may be a suffix such as 'flow::SendControler')"""
    for (n, a) in place_field_adts(p):
        if n == field and a is not None and (a == adt or a.endswith("::" + adt)):
            return True
    return False


def place_last_field(p):
    """(field, adt) of the innermost (last) field projection, or (None, None)"""
    fa = place_field_adts(p)
    return fa[-1] if fa else (None, None)


def place_str(body, p):
    l = p[0]
    n = body.local_name(l)
    s = n if n else "_%d" % l
    for e in p[1:]:
        if e == "*":
            s = "(*%s)" % s
        elif e.startswith("."):
            s += "." + _fname(e)
        else:
            s += e
    return s


def rvalue_operands(rv):
    """all operands mentioned by an rvalue"""
    k = rv[0]
    if k in ("use", "repeat"):
        return [rv[1]]
    if k == "cast":
        return [rv[2]]
    if k == "bin":
        return [rv[2], rv[3]]
    if k == "un":
        return [rv[2]]
    if k == "agg":
        return list(rv[2])
    return []


def rvalue_places(rv):
    """all places read by an rvalue (operands, refs, discriminant reads)"""
    out = []
    for o in rvalue_operands(rv):
        p = op_place(o)
        if p is not None:
            out.append(p)
    if rv[0] in ("ref", "raw"):
        out.append(rv[2])
    elif rv[0] in ("disc",):
        out.append(rv[1])
    return out


# --------------------------------------------------------------------------- names

def _match_angle(s, i):
    """index of the '>' matching the '<' at s[i]"""
    depth = 0
    j = i
    n = len(s)
    while j < n:
        c = s[j]
        if c == "<":
            depth += 1
        elif c == ">" and (j == 0 or s[j - 1] != "-"):
            depth -= 1
            if depth == 0:
                return j
        j += 1
    return n - 1


def _strip_all(s):
    """remove generic-argument groups (`::<T>` turbofish and `Type<T>`), keep `<impl X>` path segments"""
    out = []
    i = 0
    n = len(s)
    while i < n:
        c = s[i]
        if c == "<":
            j = _match_angle(s, i)
            inner = s[i + 1:j]
            if inner.startswith("impl "):
                body = inner[5:]
                k = _find_top(body, " for ")
                if k >= 0:
                    out.append("<impl " + _strip_trait(body[:k]) + " for " + _strip_all(body[k + 5:]) + ">")
                else:
                    out.append("<impl " + _strip_all(body) + ">")
            else:
                # drop the group, and the `::` of a turbofish
                if len(out) >= 2 and out[-1] == ":" and out[-2] == ":":
                    out.pop()
                    out.pop()
            i = j + 1
        else:
            out.append(c)
            i += 1
    return "".join(out)


def _find_top(s, needle):
    depth = 0
    i = 0
    while i < len(s):
        c = s[i]
        if c == "<":
            depth += 1
        elif c == ">" and s[i - 1] != "-":
            depth -= 1
        elif depth == 0 and s.startswith(needle, i):
            return i
        i += 1
    return -1


def _split_top_as(s):
    depth = 0
    i = 0
    while i < len(s):
        c = s[i]
        if c == "<":
            depth += 1
        elif c == ">" and s[i - 1] != "-":
            depth -= 1
        elif depth == 0 and s.startswith(" as ", i):
            return s[:i], s[i + 4:]
        i += 1
    return s, None


def _strip_trait(t):
    """keep a trait's type arguments (they distinguish impls) but strip nested generics/lifetimes inside them"""
    i = t.find("<")
    if i < 0:
        return t
    j = _match_angle(t, i)
    inner = t[i + 1:j]
    args = []
    depth = 0
    cur = ""
    for k, c in enumerate(inner):
        if c == "<":
            depth += 1
        elif c == ">" and inner[k - 1] != "-":
            depth -= 1
        if c == "," and depth == 0:
            args.append(cur.strip())
            cur = ""
        else:
            cur += c
    if cur.strip():
        args.append(cur.strip())
    args = [_strip_all(a) for a in args if not a.startswith("'")]
    return t[:i] + ("<" + ", ".join(args) + ">" if args else "")


_SHORT = {}


def short_name(name):
    r = _SHORT.get(name)
    if r is None:
        r = _short_name(name)
        _SHORT[name] = r
    return r


def _short_name(name):
    """generic-free form of a pretty def path:
    `a::B::<T>::f` -> `a::B::f`;  `<a::B<'_, T> as c::D<E<F>>>::f` -> `<a::B as c::D<E>>::f`"""
    if name.startswith("<") and not name.startswith("<impl "):
        j = _match_angle(name, 0)
        inner = name[1:j]
        rest = name[j + 1:]
        a, b = _split_top_as(inner)
        if b is None:
            return "<" + _strip_all(a) + ">" + _strip_all(rest)
        return "<" + _strip_all(a) + " as " + _strip_trait(b) + ">" + _strip_all(rest)
    return _strip_all(name)


# calls that merely hand back (a reference into) their receiver
_THROUGH = re.compile(r"(Deref>::deref$|DerefMut>::deref_mut$|AsRef<.*>>::as_ref$|AsMut<.*>>::as_mut$|"
                      r"Borrow<.*>>::borrow$|BorrowMut<.*>>::borrow_mut$|pin::Pin::<.*>::get_mut$|"
                      r"pin::Pin::<.*>::as_mut$|pin::Pin::<.*>::into_ref$|pin::Pin::<.*>::get_ref$|"
                      r"pin::Pin::<.*>::new$|pin::Pin::<.*>::new_unchecked$|pin::Pin::<.*>::get_unchecked_mut$)")


# --------------------------------------------------------------------------- bodies

class Body:
    __slots__ = ("r", "id", "name", "short", "crate", "kind", "file", "line", "blocks", "locals", "argc", "_succ", "_pred",
                 "_dom", "_defs", "prog", "_reach", "_moved")

    def __init__(self, r, prog):
        self.r = r
        self.prog = prog
        self.id = r["id"]
        self.name = r["name"]
        self.short = short_name(self.name)
        self.crate = self.id.split("::", 1)[0]
        self.kind = r["kind"]
        self.file = r["file"]
        self.line = r["line"]
        self.blocks = r["blocks"]
        self.locals = r["locals"]
        self.argc = r["argc"]
        self._succ = None
        self._pred = None
        self._dom = None
        self._defs = None
        self._reach = {}
        self._moved = None

    def __repr__(self):
        return "<Body %s>" % self.name

    # -- meta
    def get(self, k, d=None):
        return self.r.get(k, d)

    @property
    def macros(self):
        return self.r.get("mac", [])

    def where(self, line=None):
        return "%s:%s" % (self.file, line if line else self.line)

    def local_name(self, l):
        return self.locals[l].get("n")

    def local_ty(self, l):
        return self.locals[l]["ty"]

    def locals_named(self, name):
        return [i for i, l in enumerate(self.locals) if l.get("n") == name]

    # -- CFG (normal edges only; unwind edges are ignored everywhere)
    def term(self, b):
        return self.blocks[b]["term"]

    def stmts(self, b):
        return self.blocks[b]["s"]

    def is_cleanup(self, b):
        return self.blocks[b].get("cleanup", False)

    def succ(self, b):
        if self._succ is None:
            self._succ = [self._succ_of(t["term"]) for t in self.blocks]
        return self._succ[b]

    @staticmethod
    def _succ_of(t):
        k = t["t"]
        if k == "goto":
            return [t["to"]]
        if k == "switch":
            out = []
            for _, b in t["cases"]:
                if b not in out:
                    out.append(b)
            if t["else"] not in out:
                out.append(t["else"])
            return out
        if k in ("call", "assert", "drop", "yield"):
            return [t["to"]] if t.get("to") is not None else []
        if k == "asm":
            return list(t.get("targets", []))
        return []

    def pred(self, b):
        if self._pred is None:
            p = [[] for _ in self.blocks]
            for i in range(len(self.blocks)):
                for s in self.succ(i):
                    p[s].append(i)
            self._pred = p
        return self._pred[b]

    def reachable_from(self, start, avoid=()):
        """set of blocks reachable from `start` (a block or iterable) without entering `avoid`"""
        avoid = set(avoid)
        if isinstance(start, int):
            start = [start]
        seen = set()
        dq = deque(b for b in start if b not in avoid)
        seen.update(dq)
        while dq:
            b = dq.popleft()
            for s in self.succ(b):
                if s not in seen and s not in avoid:
                    seen.add(s)
                    dq.append(s)
        return seen

    def live_blocks(self):
        r = self._reach.get("live")
        if r is None:
            r = self.reachable_from(0)
            self._reach["live"] = r
        return r

    def dominators(self):
        """dict block -> set of dominators (over blocks reachable from entry by normal edges)"""
        if self._dom is not None:
            return self._dom
        live = self.live_blocks()
        order = self._rpo()
        dom = {b: None for b in live}
        dom[0] = {0}
        changed = True
        while changed:
            changed = False
            for b in order:
                if b == 0:
                    continue
                ps = [p for p in self.pred(b) if p in live and dom[p] is not None]
                if not ps:
                    continue
                new = set(dom[ps[0]])
                for p in ps[1:]:
                    new &= dom[p]
                new.add(b)
                if new != dom[b]:
                    dom[b] = new
                    changed = True
        for b in live:
            if dom[b] is None:
                dom[b] = {b}
        self._dom = dom
        return dom

    def _rpo(self):
        seen = set()
        out = []
        stack = [(0, iter(self.succ(0)))]
        seen.add(0)
        while stack:
            b, it = stack[-1]
            adv = False
            for s in it:
                if s not in seen:
                    seen.add(s)
                    stack.append((s, iter(self.succ(s))))
                    adv = True
                    break
            if not adv:
                out.append(b)
                stack.pop()
        out.reverse()
        return out

    def dominates(self, a, b):
        d = self.dominators().get(b)
        return d is not None and a in d

    def must_pass(self, targets, through):
        """True iff every entry->target path (target in `targets`) crosses a block in `through`.
        A target that is itself in `through` counts as passing."""
        r = self.reachable_from(0, avoid=through)
        return not any(t in r for t in targets if t not in through)

    def return_blocks(self):
        return [i for i in self.live_blocks() if self.term(i)["t"] == "ret"]

    # -- iteration helpers
    def calls(self, live_only=True):
        """yield (block, term) for every call terminator"""
        blocks = self.live_blocks() if live_only else range(len(self.blocks))
        for i in sorted(blocks):
            t = self.blocks[i]["term"]
            if t["t"] == "call":
                yield i, t

    def assigns(self, live_only=True):
        """yield (block, idx, place, rvalue, line)"""
        blocks = self.live_blocks() if live_only else range(len(self.blocks))
        for i in sorted(blocks):
            for j, s in enumerate(self.blocks[i]["s"]):
                if s[0] == "=":
                    yield i, j, s[1], s[2], s[3]

    def defs_of(self, local):
        """list of (block, idx|'term', rvalue|term) defining `local` as a whole (no projection)"""
        if self._defs is None:
            d = defaultdict(list)
            for i in range(len(self.blocks)):
                for j, s in enumerate(self.blocks[i]["s"]):
                    if s[0] == "=" and len(s[1]) == 1:
                        d[s[1][0]].append((i, j, s[2]))
                t = self.blocks[i]["term"]
                if t["t"] == "call" and len(t["dest"]) == 1:
                    d[t["dest"][0]].append((i, "term", t))
            self._defs = d
        return self._defs.get(local, [])

    def callee_name(self, t):
        f = t["f"]
        return f.get("name") or f.get("orig_name") or ""

    def callee_id(self, t):
        f = t["f"]
        return f.get("def") or f.get("orig")

    def trace_local(self, local, depth=12):
        """follow whole-local copies/moves/refs/casts backwards: returns a list of 'origins':
        ('arg', n) | ('call', block, term) | ('const', k) | ('place', place) | ('rv', rvalue)"""
        out = []
        seen = set()
        work = [(local, depth)]
        while work:
            l, d = work.pop()
            if l in seen:
                continue
            seen.add(l)
            if 1 <= l <= self.argc:
                out.append(("arg", l))
            defs = self.defs_of(l)
            for (b, j, rv) in defs:
                if j == "term":
                    nm = rv["f"].get("name") or rv["f"].get("orig_name") or ""
                    if _THROUGH.search(nm) and rv["args"] and d > 0:
                        p0 = op_place(rv["args"][0])
                        if p0 is not None:
                            if len([e for e in p0[1:] if e != "*"]) == 0:
                                work.append((p0[0], d - 1))
                            else:
                                out.append(("place", p0))
                            continue
                    out.append(("call", b, rv))
                    continue
                k = rv[0]
                src = None
                if k == "use":
                    src = rv[1]
                elif k == "cast":
                    src = rv[2]
                elif k == "ref" or k == "raw":
                    p = rv[2]
                    if len([e for e in p[1:] if e != "*"]) == 0 and d > 0:
                        work.append((p[0], d - 1))
                    else:
                        out.append(("place", p))
                    continue
                if src is not None:
                    p = op_place(src)
                    if p is not None:
                        if len([e for e in p[1:] if e != "*"]) == 0 and d > 0:
                            work.append((p[0], d - 1))
                        else:
                            out.append(("place", p))
                    else:
                        out.append(("const", op_const(src)))
                else:
                    out.append(("rv", rv))
        return out


# --------------------------------------------------------------------------- program

class Program:
    def __init__(self, factdir):
        self.factdir = factdir
        self.bodies = {}
        self.by_name = defaultdict(list)
        self.by_short = defaultdict(list)
        self.adts = {}
        self.impls = []
        self.traits = {}
        self.consts = {}
        self.crates = {}
        self._callers = None
        self._callees = {}
        self._trait_impls = None
        self._conv = None
        seen_crates = set()
        files = sorted(glob.glob(os.path.join(factdir, "*.jsonl")))
        if not files:
            raise RuntimeError("no fact files in %s" % factdir)
        records = None
        cache = os.path.join(factdir, "records.pickle")
        if os.path.exists(cache) and os.path.getmtime(cache) >= max(os.path.getmtime(f) for f in files):
            try:
                with open(cache, "rb") as fh:
                    records = pickle.load(fh)
            except Exception:
                records = None
        if records is None:
            records = []
            for f in files:
                cname = os.path.basename(f).rsplit("-", 1)[0]
                if cname in seen_crates:
                    continue  # proc-macro crates are compiled twice
                seen_crates.add(cname)
                with open(f) as fh:
                    for line in fh:
                        records.append(json.loads(line))
            try:
                tmp = cache + ".%d" % os.getpid()
                with open(tmp, "wb") as fh:
                    pickle.dump(records, fh, protocol=pickle.HIGHEST_PROTOCOL)
                os.replace(tmp, cache)
            except Exception:
                pass
        if True:
            if True:
                for r in records:
                    k = r["k"]
                    if k == "body":
                        b = Body(r, self)
                        self.bodies[b.id] = b
                        self.by_name[b.name].append(b)
                        self.by_short[b.short].append(b)
                    elif k == "adt":
                        self.adts[r["name"]] = r
                    elif k == "impl":
                        self.impls.append(r)
                    elif k == "trait":
                        self.traits[r["name"]] = r
                    elif k == "const":
                        self.consts[r["name"]] = r
                    elif k == "crate":
                        self.crates[r["name"]] = r

    # -- lookup
    def body(self, name):
        """unique body by exact pretty name; raises KeyError if missing/ambiguous"""
        l = self.by_short.get(name, []) or self.by_name.get(name, [])
        if len(l) != 1:
            raise KeyError("%s: %d bodies" % (name, len(l)))
        return l[0]

    def find(self, pattern, kinds=None):
        """bodies whose pretty name matches the regex (search)"""
        rx = re.compile(pattern)
        out = [b for b in self.bodies.values() if rx.search(b.short)]
        if kinds:
            out = [b for b in out if b.kind in kinds]
        return sorted(out, key=lambda b: b.id)

    def children(self, body):
        """closures / coroutines defined directly inside `body`"""
        return [b for b in self.bodies.values() if b.get("parent") == body.id]

    def with_closures(self, body):
        """body plus all nested closures/coroutines (transitively)"""
        out = [body]
        for b in self.bodies.values():
            if b.get("root") == (body.get("root") or body.id) and b is not body:
                # nested under the same typeck root: keep only descendants of `body`
                p = b
                while p is not None and p.get("parent"):
                    if p.get("parent") == body.id:
                        out.append(b)
                        break
                    p = self.bodies.get(p.get("parent"))
        return out

    def const_value(self, name):
        c = self.consts.get(name)
        return int(c["v"]) if c else None

    def adt(self, name):
        return self.adts[name]

    # -- trait impl index (CHA)
    def trait_impls(self):
        """trait item id -> list of impl item ids"""
        if self._trait_impls is None:
            m = defaultdict(list)
            for im in self.impls:
                for it in im["items"]:
                    ti = it.get("trait_item")
                    if ti and it.get("fn"):
                        m[ti].append(it["id"])
            self._trait_impls = m
        return self._trait_impls

    def conversion_impl(self, dst_ty, src_ty):
        """id of `<F as From<E>>::from` for Result<_, F> <- Result<Infallible, E>, if it is a workspace impl"""
        def err_of(t):
            if not t.startswith("core::result::Result<"):
                return None
            inner = t[len("core::result::Result<"):-1]
            depth = 0
            for k, c in enumerate(inner):
                if c in "<([":
                    depth += 1
                elif c in ">)]" and inner[k - 1] != "-":
                    depth -= 1
                elif c == "," and depth == 0:
                    return inner[k + 1:].strip()
            return None
        fty, ety = err_of(dst_ty), err_of(src_ty)
        if not fty or not ety or fty == ety:
            return None
        if self._conv is None:
            self._conv = {}
            for im in self.impls:
                tr = im.get("trait", "")
                if tr.startswith("core::convert::From<"):
                    for it in im["items"]:
                        if it["n"] == "from":
                            self._conv[(im["self_ty"], tr[len("core::convert::From<"):-1])] = it["id"]
        return self._conv.get((fty, ety))

    # -- call graph
    def callees(self, body, cha=True, closures=True, refs=True):
        """list of (callee_id, kind, block) with kind in call|cha|closure|ref|drop"""
        key = (body.id, cha, closures, refs)
        c = self._callees.get(key)
        if c is not None:
            return c
        out = []
        ti = self.trait_impls()
        for i in sorted(body.live_blocks()):
            blk = body.blocks[i]
            t = blk["term"]
            if t["t"] == "call":
                f = t["f"]
                if f.get("res") in ("item", "once_shim", "fnptr_shim", "reify", "clone_shim"):
                    out.append((f["def"], "call", i))
                    if f.get("closure"):
                        out.append((f["closure"], "call", i))
                elif f.get("res") in ("none", "virtual") and cha:
                    for impl_item in ti.get(f.get("orig"), []):
                        out.append((impl_item, "cha", i))
                    # default method body of the trait itself
                    if f.get("orig") in self.bodies:
                        out.append((f["orig"], "cha", i))
                elif f.get("res") == "indirect":
                    pass
                nm = f.get("name", "")
                if nm.endswith("::from_residual") and len(f.get("gargs", [])) >= 2:
                    # `?` converting the error through a workspace `impl From<E> for F`
                    conv = self.conversion_impl(f["gargs"][0], f["gargs"][1])
                    if conv:
                        out.append((conv, "conv", i))
                if refs:
                    for fn in f.get("fns", []):
                        out.append((fn, "ref", i))
                    for a in t["args"]:
                        k = op_const(a)
                        if k and "fn" in k:
                            out.append((k["fn"], "ref", i))
                            for fn in k.get("fns", []):
                                out.append((fn, "ref", i))
            for s in blk["s"]:
                if s[0] != "=":
                    continue
                rv = s[2]
                if rv[0] == "agg" and closures and rv[1]["k"] in ("closure", "coroutine", "coroutine_closure"):
                    out.append((rv[1]["def"], "closure", i))
                if refs:
                    for o in rvalue_operands(rv):
                        k = op_const(o)
                        if k and "fn" in k:
                            out.append((k["fn"], "ref", i))
                            for fn in k.get("fns", []):
                                out.append((fn, "ref", i))
        self._callees[key] = out
        return out

    def reachable_bodies(self, roots, cha=True, stop=None, edge_filter=None):
        """bodies reachable from `roots` (Body objects) over the call graph; returns dict id -> (pred_id, kind)"""
        seen = {}
        dq = deque()
        for r in roots:
            seen[r.id] = (None, "root")
            dq.append(r.id)
        while dq:
            bid = dq.popleft()
            b = self.bodies.get(bid)
            if b is None:
                continue
            if stop and stop(b):
                continue
            for (cid, kind, blk) in self.callees(b, cha=cha):
                if edge_filter and not edge_filter(b, cid, kind, blk):
                    continue
                if cid not in seen:
                    seen[cid] = (bid, kind)
                    dq.append(cid)
        return seen

    def path_to(self, seen, target):
        """call path root -> target from a `reachable_bodies` result"""
        p = []
        cur = target
        while cur is not None:
            b = self.bodies.get(cur)
            p.append(b.name if b else cur)
            cur = seen[cur][0]
        p.reverse()
        return p

    def callers(self):
        if self._callers is None:
            m = defaultdict(list)
            for b in self.bodies.values():
                for (cid, kind, blk) in self.callees(b):
                    m[cid].append((b.id, kind, blk))
            self._callers = m
        return self._callers

    def call_sites(self, callee_pattern):
        """all (body, block, term) whose resolved or original callee name matches regex"""
        rx = re.compile(callee_pattern)
        out = []
        for b in self.bodies.values():
            for i, t in b.calls():
                f = t["f"]
                if rx.search(short_name(f.get("name", ""))) or rx.search(short_name(f.get("orig_name", ""))):
                    out.append((b, i, t))
        return out


def load(factdir):
    import gc
    gc.disable()
    try:
        p = Program(factdir)
    finally:
        gc.enable()
    gc.freeze()
    return p
