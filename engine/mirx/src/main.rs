//! mirx — resolved-program fact extractor for the gm-quic static checks.
//!
//! Runs as RUSTC_WORKSPACE_WRAPPER under `cargo +nightly check`.  For every
//! workspace crate it writes one JSON-lines fact file
//! `$MIRX_OUT/<crate>-<hash>.jsonl` (one write per process) containing
//!   * body   — MIR (drops elaborated, before coroutine lowering) of every
//!              fn / assoc fn / closure / coroutine: locals, statements,
//!              terminators with resolved callees, constants evaluated;
//!   * adt    — structs/enums with fields, variants, Drop impl;
//!   * impl   — trait impls and inherent impls with their items;
//!   * crate  — summary counts.
//! No crates.io dependencies: JSON is written by hand.
#![feature(rustc_private)]

extern crate rustc_abi;
extern crate rustc_data_structures;
extern crate rustc_index;
extern crate rustc_driver;
extern crate rustc_hir;
extern crate rustc_interface;
extern crate rustc_middle;
extern crate rustc_session;
extern crate rustc_span;

use rustc_driver::{Callbacks, Compilation};
use rustc_hir::def::DefKind;
use rustc_hir::def_id::{DefId, LocalDefId};
use rustc_middle::mir::{self, *};
use rustc_middle::ty::print::{with_crate_prefix, with_no_trimmed_paths, with_no_visible_paths, PrintTraitRefExt};
use rustc_middle::ty::{self, GenericArgsRef, Instance, InstanceKind, Ty, TyCtxt, TypingEnv};
use rustc_span::{ExpnKind, MacroKind, Span};
use std::cell::RefCell;
use std::fmt::Write as _;

// ------------------------------------------------------------------ pre-lowering coroutine MIR
//
// `mir_drops_elaborated_and_const_checked` already contains the coroutine state
// transform, which destroys the source CFG of every `async` body.  The
// `mir_promoted` provider is therefore wrapped: the body of each coroutine is
// cloned at that point (borrow-checked shape, drops not yet elaborated) and
// dumped later from `after_analysis`.

thread_local! {
    static STASH: RefCell<Vec<(LocalDefId, Body<'static>)>> = RefCell::new(Vec::new());
    static DEFAULT_MIR_PROMOTED: RefCell<Option<usize>> = RefCell::new(None);
}

type PromotedFn = for<'tcx> fn(
    TyCtxt<'tcx>,
    LocalDefId,
) -> (
    &'tcx rustc_data_structures::steal::Steal<Body<'tcx>>,
    &'tcx rustc_data_structures::steal::Steal<rustc_index::IndexVec<Promoted, Body<'tcx>>>,
);

fn my_mir_promoted<'tcx>(
    tcx: TyCtxt<'tcx>,
    def: LocalDefId,
) -> (
    &'tcx rustc_data_structures::steal::Steal<Body<'tcx>>,
    &'tcx rustc_data_structures::steal::Steal<rustc_index::IndexVec<Promoted, Body<'tcx>>>,
) {
    let f: PromotedFn = DEFAULT_MIR_PROMOTED.with(|d| unsafe { std::mem::transmute::<usize, PromotedFn>(d.borrow().unwrap()) });
    let r = f(tcx, def);
    if tcx.is_coroutine(def.to_def_id()) {
        let b: Body<'tcx> = r.0.borrow().clone();
        let b: Body<'static> = unsafe { std::mem::transmute(b) };
        STASH.with(|s| s.borrow_mut().push((def, b)));
    }
    r
}

// ------------------------------------------------------------------ JSON helpers

fn esc_into(out: &mut String, s: &str) {
    out.push('"');
    for c in s.chars() {
        match c {
            '"' => out.push_str("\\\""),
            '\\' => out.push_str("\\\\"),
            '\n' => out.push_str("\\n"),
            '\r' => out.push_str("\\r"),
            '\t' => out.push_str("\\t"),
            c if (c as u32) < 0x20 => {
                let _ = write!(out, "\\u{:04x}", c as u32);
            }
            c => out.push(c),
        }
    }
    out.push('"');
}

fn esc(s: &str) -> String {
    let mut o = String::with_capacity(s.len() + 2);
    esc_into(&mut o, s);
    o
}

fn jlist(items: &[String]) -> String {
    let mut o = String::from("[");
    for (i, it) in items.iter().enumerate() {
        if i > 0 {
            o.push(',');
        }
        o.push_str(it);
    }
    o.push(']');
    o
}

// ------------------------------------------------------------------ context

struct Cx<'tcx> {
    tcx: TyCtxt<'tcx>,
    krate: String,
}

impl<'tcx> Cx<'tcx> {
    fn norm(&self, s: String) -> String {
        // local paths are printed as `crate::…`; make them absolute
        if s.contains("crate::") {
            s.replace("crate::", &format!("{}::", self.krate))
        } else if s == "crate" {
            self.krate.clone()
        } else {
            s
        }
    }

    /// pretty, crate-qualified path of a definition
    fn path(&self, did: DefId) -> String {
        let s = with_crate_prefix!(with_no_visible_paths!(with_no_trimmed_paths!(self.tcx.def_path_str(did))));
        self.norm(s)
    }

    /// unique, stable id of a definition: crate + verbose def path
    fn id(&self, did: DefId) -> String {
        let cn = self.tcx.crate_name(did.krate);
        format!("{}{}", cn, self.tcx.def_path(did).to_string_no_crate_verbose())
    }

    fn ty(&self, t: Ty<'tcx>) -> String {
        let s = with_crate_prefix!(with_no_visible_paths!(with_no_trimmed_paths!(t.to_string())));
        self.norm(s)
    }

    fn loc(&self, span: Span) -> (String, usize) {
        let sp = span.source_callsite();
        let sm = self.tcx.sess.source_map();
        let lo = sm.lookup_char_pos(sp.lo());
        let name = format!("{}", lo.file.name.prefer_local_unconditionally());
        (name, lo.line)
    }

    /// macro names the span was expanded through, innermost first
    fn macros(&self, span: Span) -> Vec<String> {
        let mut v = Vec::new();
        if !span.from_expansion() {
            return v;
        }
        for ed in span.macro_backtrace() {
            match ed.kind {
                ExpnKind::Macro(k, name) => {
                    let p = match k {
                        MacroKind::Bang => "",
                        MacroKind::Attr => "#",
                        MacroKind::Derive => "derive:",
                    };
                    v.push(format!("{}{}", p, name));
                }
                ExpnKind::Desugaring(d) => v.push(format!("desugar:{:?}", d)),
                ExpnKind::AstPass(_) => v.push("astpass".to_string()),
                ExpnKind::Root => {}
            }
            if v.len() >= 6 {
                break;
            }
        }
        v
    }
}

// ------------------------------------------------------------------ body dump

struct BodyCx<'a, 'tcx> {
    cx: &'a Cx<'tcx>,
    body: &'a Body<'tcx>,
    env: TypingEnv<'tcx>,
    file: String,
}

impl<'a, 'tcx> BodyCx<'a, 'tcx> {
    fn tcx(&self) -> TyCtxt<'tcx> {
        self.cx.tcx
    }

    fn line(&self, span: Span) -> usize {
        let (f, l) = self.cx.loc(span);
        if f == self.file { l } else { 0 }
    }

    fn place(&self, p: &Place<'tcx>) -> String {
        let mut o = String::new();
        let _ = write!(o, "[{}", p.local.as_u32());
        let mut ty = PlaceTy::from_ty(self.body.local_decls[p.local].ty);
        for elem in p.projection.iter() {
            o.push(',');
            match elem {
                ProjectionElem::Deref => o.push_str("\"*\""),
                ProjectionElem::Field(f, _) => {
                    let name = self.field_name(ty, f.as_usize());
                    match ty.ty.kind() {
                        ty::Adt(def, _) => esc_into(&mut o, &format!(".{}:{}", name, self.cx.path(def.did()))),
                        _ => esc_into(&mut o, &format!(".{}", name)),
                    }
                }
                ProjectionElem::Index(l) => {
                    let _ = write!(o, "\"[_{}]\"", l.as_u32());
                }
                ProjectionElem::ConstantIndex { offset, from_end, .. } => {
                    let _ = write!(o, "\"[{}{}]\"", if from_end { "-" } else { "" }, offset);
                }
                ProjectionElem::Subslice { from, to, from_end } => {
                    let _ = write!(o, "\"[{}..{}{}]\"", from, if from_end { "-" } else { "" }, to);
                }
                ProjectionElem::Downcast(name, idx) => {
                    let n = match name {
                        Some(s) => s.to_string(),
                        None => self.variant_name(ty, idx.as_usize()),
                    };
                    esc_into(&mut o, &format!("@{}", n));
                }
                ProjectionElem::OpaqueCast(_) => o.push_str("\"opaque\""),
                ProjectionElem::UnwrapUnsafeBinder(_) => o.push_str("\"unbind\""),
            }
            ty = ty.projection_ty(self.tcx(), elem);
        }
        o.push(']');
        o
    }

    fn variant_name(&self, pty: PlaceTy<'tcx>, idx: usize) -> String {
        match pty.ty.kind() {
            ty::Adt(def, _) if def.is_enum() => {
                def.variant(rustc_abi::VariantIdx::from_usize(idx)).name.to_string()
            }
            ty::Coroutine(..) => format!("state{}", idx),
            _ => format!("v{}", idx),
        }
    }

    fn field_name(&self, pty: PlaceTy<'tcx>, idx: usize) -> String {
        match pty.ty.kind() {
            ty::Adt(def, _) => {
                let v = match pty.variant_index {
                    Some(v) => def.variant(v),
                    None => {
                        if def.is_enum() {
                            return format!("{}", idx);
                        }
                        def.non_enum_variant()
                    }
                };
                match v.fields.iter().nth(idx) {
                    Some(f) => f.name.to_string(),
                    None => format!("{}", idx),
                }
            }
            _ => format!("{}", idx),
        }
    }

    fn place_ty(&self, p: &Place<'tcx>) -> Ty<'tcx> {
        p.ty(&self.body.local_decls, self.tcx()).ty
    }

    fn scalar_of(&self, c: &mir::Const<'tcx>) -> Option<String> {
        let ty = c.ty();
        if ty.is_floating_point() {
            let si = c.try_eval_scalar_int(self.tcx(), self.env)?;
            let bits = si.to_uint(si.size());
            return match si.size().bytes() {
                4 => Some(format!("{}", f32::from_bits(bits as u32))),
                8 => Some(format!("{}", f64::from_bits(bits as u64))),
                _ => None,
            };
        }
        if !(ty.is_integral() || ty.is_bool() || ty.is_char()) {
            return None;
        }
        let si = c.try_eval_scalar_int(self.tcx(), self.env)?;
        let size = si.size();
        if ty.is_signed() {
            Some(format!("{}", si.to_int(size)))
        } else {
            Some(format!("{}", si.to_uint(size)))
        }
    }

    fn fn_mentions(&self, args: GenericArgsRef<'tcx>, out: &mut Vec<String>) {
        for arg in args.iter() {
            for inner in arg.walk() {
                if let Some(t) = inner.as_type() {
                    match t.kind() {
                        ty::FnDef(d, _)
                        | ty::Closure(d, _)
                        | ty::Coroutine(d, _)
                        | ty::CoroutineClosure(d, _) => {
                            let s = esc(&self.cx.id(*d));
                            if !out.contains(&s) {
                                out.push(s);
                            }
                        }
                        _ => {}
                    }
                }
            }
        }
    }

    fn constant(&self, c: &ConstOperand<'tcx>) -> String {
        let ty = c.const_.ty();
        let mut o = String::from("{");
        let _ = write!(o, "\"ty\":{}", esc(&self.cx.ty(ty)));
        match ty.kind() {
            ty::FnDef(d, args) => {
                let _ = write!(o, ",\"fn\":{},\"fn_name\":{}", esc(&self.cx.id(*d)), esc(&self.cx.path(*d)));
                let mut m = Vec::new();
                self.fn_mentions(args, &mut m);
                if !m.is_empty() {
                    let _ = write!(o, ",\"fns\":{}", jlist(&m));
                }
            }
            _ => {
                if let Some(v) = self.scalar_of(&c.const_) {
                    let _ = write!(o, ",\"v\":{}", esc(&v));
                } else if ty.is_floating_point() || ty.is_str() || ty.is_integral() || ty.is_bool() || matches!(ty.kind(), ty::Ref(..)) {
                    let s = format!("{}", c.const_);
                    if s.len() < 200 {
                        let _ = write!(o, ",\"s\":{}", esc(&s));
                    }
                }
            }
        }
        if let mir::Const::Unevaluated(u, _) = c.const_ {
            // a named constant (or promoted / inline const)
            if u.promoted.is_none() {
                let dk = self.tcx().def_kind(u.def);
                if matches!(dk, DefKind::Const { .. } | DefKind::AssocConst { .. }) {
                    let _ = write!(o, ",\"named\":{}", esc(&self.cx.path(u.def)));
                }
            } else if let Some(pi) = u.promoted {
                let _ = write!(o, ",\"promoted\":{},\"promoted_of\":{}", pi.as_u32(), esc(&self.cx.id(u.def)));
            }
        }
        o.push('}');
        o
    }

    fn operand(&self, op: &Operand<'tcx>) -> String {
        match op {
            Operand::Copy(p) => format!("[\"c\",{}]", self.place(p)),
            Operand::Move(p) => format!("[\"m\",{}]", self.place(p)),
            Operand::Constant(c) => format!("[\"k\",{}]", self.constant(c)),
            Operand::RuntimeChecks(_) => "[\"k\",{\"ty\":\"bool\",\"rt\":true}]".to_string(),
        }
    }

    fn rvalue(&self, rv: &Rvalue<'tcx>) -> String {
        match rv {
            Rvalue::Use(op, _) => format!("[\"use\",{}]", self.operand(op)),
            Rvalue::Repeat(op, _) => format!("[\"repeat\",{}]", self.operand(op)),
            Rvalue::Ref(_, bk, p) => {
                let k = match bk {
                    BorrowKind::Shared => "shared",
                    BorrowKind::Fake(_) => "fake",
                    BorrowKind::Mut { .. } => "mut",
                };
                format!("[\"ref\",\"{}\",{}]", k, self.place(p))
            }
            Rvalue::ThreadLocalRef(d) => format!("[\"tls\",{}]", esc(&self.cx.path(*d))),
            Rvalue::RawPtr(k, p) => {
                let m = match k {
                    RawPtrKind::Mut => "mut",
                    RawPtrKind::Const => "const",
                    RawPtrKind::FakeForPtrMetadata => "meta",
                };
                format!("[\"raw\",\"{}\",{}]", m, self.place(p))
            }
            Rvalue::Cast(kind, op, ty) => {
                let k = format!("{:?}", kind);
                let k = k.split('(').next().unwrap_or("").to_string();
                format!("[\"cast\",{},{},{}]", esc(&k), self.operand(op), esc(&self.cx.ty(*ty)))
            }
            Rvalue::BinaryOp(op, ab) => {
                format!("[\"bin\",\"{:?}\",{},{}]", op, self.operand(&ab.0), self.operand(&ab.1))
            }
            Rvalue::UnaryOp(op, a) => format!("[\"un\",\"{:?}\",{}]", op, self.operand(a)),
            Rvalue::Discriminant(p) => format!(
                "[\"disc\",{},{}]",
                self.place(p),
                esc(&self.cx.ty(self.place_ty(p)))
            ),
            Rvalue::Aggregate(kind, ops) => {
                let ops: Vec<String> = ops.iter().map(|o| self.operand(o)).collect();
                let k = match &**kind {
                    AggregateKind::Array(_) => "{\"k\":\"array\"}".to_string(),
                    AggregateKind::Tuple => "{\"k\":\"tuple\"}".to_string(),
                    AggregateKind::Adt(did, vidx, _, _, _) => {
                        let adt = self.tcx().adt_def(*did);
                        let v = adt.variant(*vidx);
                        let fields: Vec<String> = v.fields.iter().map(|f| esc(f.name.as_str())).collect();
                        format!(
                            "{{\"k\":\"adt\",\"adt\":{},\"variant\":{},\"vidx\":{},\"fields\":{}}}",
                            esc(&self.cx.path(*did)),
                            esc(v.name.as_str()),
                            vidx.as_usize(),
                            jlist(&fields)
                        )
                    }
                    AggregateKind::Closure(d, _) => format!("{{\"k\":\"closure\",\"def\":{}}}", esc(&self.cx.id(*d))),
                    AggregateKind::Coroutine(d, _) => format!("{{\"k\":\"coroutine\",\"def\":{}}}", esc(&self.cx.id(*d))),
                    AggregateKind::CoroutineClosure(d, _) => {
                        format!("{{\"k\":\"coroutine_closure\",\"def\":{}}}", esc(&self.cx.id(*d)))
                    }
                    AggregateKind::RawPtr(..) => "{\"k\":\"rawptr\"}".to_string(),
                };
                format!("[\"agg\",{},{}]", k, jlist(&ops))
            }
            Rvalue::CopyForDeref(p) => format!("[\"use\",[\"c\",{}]]", self.place(p)),
            Rvalue::WrapUnsafeBinder(op, _) => format!("[\"use\",{}]", self.operand(op)),
        }
    }

    fn callee(&self, func: &Operand<'tcx>) -> String {
        let fty = func.ty(&self.body.local_decls, self.tcx());
        match fty.kind() {
            ty::FnDef(did, args) => {
                let did = *did;
                let mut o = String::from("{");
                let _ = write!(o, "\"orig\":{},\"orig_name\":{}", esc(&self.cx.id(did)), esc(&self.cx.path(did)));
                // trait method?
                let tcx = self.tcx();
                if let Some(tr) = tcx.trait_of_assoc(did) {
                    let _ = write!(o, ",\"trait\":{}", esc(&self.cx.path(tr)));
                    if args.len() > 0 {
                        if let Some(st) = args.get(0).and_then(|a| a.as_type()) {
                            let _ = write!(o, ",\"self\":{}", esc(&self.cx.ty(st)));
                        }
                    }
                }
                let resolved = Instance::try_resolve(tcx, self.env, did, args);
                match resolved {
                    Ok(Some(inst)) => {
                        let (kind, d) = match inst.def {
                            InstanceKind::Item(d) => ("item", d),
                            InstanceKind::Intrinsic(d) => ("intrinsic", d),
                            InstanceKind::Virtual(d, _) => ("virtual", d),
                            InstanceKind::ClosureOnceShim { call_once, .. } => ("once_shim", call_once),
                            InstanceKind::FnPtrShim(d, _) => ("fnptr_shim", d),
                            InstanceKind::DropGlue(d, _) => ("drop_glue", d),
                            InstanceKind::CloneShim(d, _) => ("clone_shim", d),
                            InstanceKind::ReifyShim(d, _) => ("reify", d),
                            InstanceKind::VTableShim(d) => ("vtable_shim", d),
                            other => ("other", other.def_id()),
                        };
                        let _ = write!(
                            o,
                            ",\"res\":\"{}\",\"def\":{},\"name\":{}",
                            kind,
                            esc(&self.cx.id(d)),
                            esc(&self.cx.path(d))
                        );
                        // closure call through Fn* traits: the receiver closure
                        if let Some(t0) = inst.args.iter().next().and_then(|a| a.as_type()) {
                            if kind == "once_shim" || kind == "item" {
                                if let ty::Closure(cd, _) | ty::Coroutine(cd, _) | ty::CoroutineClosure(cd, _) =
                                    t0.kind()
                                {
                                    let _ = write!(o, ",\"closure\":{}", esc(&self.cx.id(*cd)));
                                }
                            }
                        }
                        if let ty::Closure(cd, _) = args.iter().next().and_then(|a| a.as_type()).map(|t| t.kind()).unwrap_or(&ty::Bool) {
                            let _ = write!(o, ",\"self_closure\":{}", esc(&self.cx.id(*cd)));
                        }
                    }
                    _ => {
                        o.push_str(",\"res\":\"none\"");
                    }
                }
                let gargs: Vec<String> = args.iter().map(|a| {
                    let s = with_crate_prefix!(with_no_visible_paths!(with_no_trimmed_paths!(a.to_string())));
                    esc(&self.cx.norm(s))
                }).collect();
                let _ = write!(o, ",\"gargs\":{}", jlist(&gargs));
                let mut m = Vec::new();
                self.fn_mentions(args, &mut m);
                if !m.is_empty() {
                    let _ = write!(o, ",\"fns\":{}", jlist(&m));
                }
                o.push('}');
                o
            }
            _ => {
                // indirect call through fn pointer / closure value
                format!("{{\"res\":\"indirect\",\"ptr\":{},\"ty\":{}}}", self.operand(func), esc(&self.cx.ty(fty)))
            }
        }
    }

    fn bb(&self, b: BasicBlock) -> u32 {
        b.as_u32()
    }

    fn unwind(&self, u: &UnwindAction) -> String {
        match u {
            UnwindAction::Cleanup(b) => format!("{}", b.as_u32()),
            _ => "null".to_string(),
        }
    }

    fn terminator(&self, t: &Terminator<'tcx>) -> String {
        let line = self.line(t.source_info.span);
        let macros = self.cx.macros(t.source_info.span);
        let mac = if macros.is_empty() {
            String::new()
        } else {
            format!(",\"mac\":{}", jlist(&macros.iter().map(|m| esc(m)).collect::<Vec<_>>()))
        };
        match &t.kind {
            TerminatorKind::Goto { target } => format!("{{\"t\":\"goto\",\"to\":{}}}", self.bb(*target)),
            TerminatorKind::FalseEdge { real_target, .. } => format!("{{\"t\":\"goto\",\"to\":{}}}", self.bb(*real_target)),
            TerminatorKind::FalseUnwind { real_target, .. } => format!("{{\"t\":\"goto\",\"to\":{}}}", self.bb(*real_target)),
            TerminatorKind::SwitchInt { discr, targets } => {
                let mut cases = Vec::new();
                for (v, b) in targets.iter() {
                    cases.push(format!("[{},{}]", esc(&format!("{}", v)), self.bb(b)));
                }
                format!(
                    "{{\"t\":\"switch\",\"on\":{},\"cases\":{},\"else\":{},\"line\":{}{}}}",
                    self.operand(discr),
                    jlist(&cases),
                    self.bb(targets.otherwise()),
                    line,
                    mac
                )
            }
            TerminatorKind::UnwindResume => "{\"t\":\"resume\"}".to_string(),
            TerminatorKind::UnwindTerminate(_) => "{\"t\":\"abort\"}".to_string(),
            TerminatorKind::Return => "{\"t\":\"ret\"}".to_string(),
            TerminatorKind::Unreachable => "{\"t\":\"unreachable\"}".to_string(),
            TerminatorKind::CoroutineDrop => "{\"t\":\"cordrop\"}".to_string(),
            TerminatorKind::Drop { place, target, unwind, .. } => {
                let pty = self.place_ty(place);
                format!(
                    "{{\"t\":\"drop\",\"place\":{},\"ty\":{},\"to\":{},\"unwind\":{},\"line\":{}}}",
                    self.place(place),
                    esc(&self.cx.ty(pty)),
                    self.bb(*target),
                    self.unwind(unwind),
                    line
                )
            }
            TerminatorKind::Call { func, args, destination, target, unwind, .. } => {
                let a: Vec<String> = args.iter().map(|s| self.operand(&s.node)).collect();
                format!(
                    "{{\"t\":\"call\",\"f\":{},\"args\":{},\"dest\":{},\"to\":{},\"unwind\":{},\"line\":{}{}}}",
                    self.callee(func),
                    jlist(&a),
                    self.place(destination),
                    match target {
                        Some(b) => format!("{}", b.as_u32()),
                        None => "null".to_string(),
                    },
                    self.unwind(unwind),
                    line,
                    mac
                )
            }
            TerminatorKind::TailCall { func, args, .. } => {
                let a: Vec<String> = args.iter().map(|s| self.operand(&s.node)).collect();
                format!(
                    "{{\"t\":\"call\",\"f\":{},\"args\":{},\"dest\":[0],\"to\":null,\"unwind\":null,\"tail\":true,\"line\":{}{}}}",
                    self.callee(func),
                    jlist(&a),
                    line,
                    mac
                )
            }
            TerminatorKind::Assert { cond, expected, msg, target, unwind } => {
                let (kind, ops): (String, Vec<String>) = match &**msg {
                    AssertKind::BoundsCheck { len, index } => {
                        ("bounds".into(), vec![self.operand(len), self.operand(index)])
                    }
                    AssertKind::Overflow(op, a, b) => {
                        (format!("overflow:{:?}", op), vec![self.operand(a), self.operand(b)])
                    }
                    AssertKind::OverflowNeg(a) => ("overflow:Neg".into(), vec![self.operand(a)]),
                    AssertKind::DivisionByZero(a) => ("div0".into(), vec![self.operand(a)]),
                    AssertKind::RemainderByZero(a) => ("rem0".into(), vec![self.operand(a)]),
                    AssertKind::ResumedAfterReturn(_) => ("resumed".into(), vec![]),
                    AssertKind::ResumedAfterPanic(_) => ("resumed".into(), vec![]),
                    AssertKind::ResumedAfterDrop(_) => ("resumed".into(), vec![]),
                    AssertKind::MisalignedPointerDereference { .. } => ("misaligned".into(), vec![]),
                    AssertKind::NullPointerDereference => ("nullptr".into(), vec![]),
                    AssertKind::InvalidEnumConstruction(_) => ("invalid_enum".into(), vec![]),
                };
                format!(
                    "{{\"t\":\"assert\",\"cond\":{},\"expected\":{},\"kind\":{},\"ops\":{},\"to\":{},\"unwind\":{},\"line\":{}{}}}",
                    self.operand(cond),
                    expected,
                    esc(&kind),
                    jlist(&ops),
                    self.bb(*target),
                    self.unwind(unwind),
                    line,
                    mac
                )
            }
            TerminatorKind::Yield { value, resume, resume_arg, drop } => format!(
                "{{\"t\":\"yield\",\"value\":{},\"to\":{},\"resume_arg\":{},\"drop\":{},\"line\":{}}}",
                self.operand(value),
                self.bb(*resume),
                self.place(resume_arg),
                match drop {
                    Some(b) => format!("{}", b.as_u32()),
                    None => "null".to_string(),
                },
                line
            ),
            TerminatorKind::InlineAsm { targets, .. } => {
                let t: Vec<String> = targets.iter().map(|b| format!("{}", b.as_u32())).collect();
                format!("{{\"t\":\"asm\",\"targets\":{}}}", jlist(&t))
            }
        }
    }

    fn statement(&self, s: &Statement<'tcx>) -> Option<String> {
        match &s.kind {
            StatementKind::Assign(b) => {
                let (p, rv) = &**b;
                let line = self.line(s.source_info.span);
                let macros = self.cx.macros(s.source_info.span);
                let mac = if macros.is_empty() {
                    String::new()
                } else {
                    format!(",{}", jlist(&macros.iter().map(|m| esc(m)).collect::<Vec<_>>()))
                };
                Some(format!("[\"=\",{},{},{}{}]", self.place(p), self.rvalue(rv), line, mac))
            }
            StatementKind::SetDiscriminant { place, variant_index } => {
                let pty = PlaceTy::from_ty(self.place_ty(place));
                let line = self.line(s.source_info.span);
                Some(format!(
                    "[\"setdisc\",{},{},{}]",
                    self.place(place),
                    esc(&self.variant_name(pty, variant_index.as_usize())),
                    line
                ))
            }
            StatementKind::Intrinsic(b) => match &**b {
                NonDivergingIntrinsic::Assume(op) => Some(format!("[\"assume\",{}]", self.operand(op))),
                NonDivergingIntrinsic::CopyNonOverlapping(_) => Some("[\"copy_nonoverlapping\"]".to_string()),
            },
            _ => None,
        }
    }
}

fn dump_body<'tcx>(cx: &Cx<'tcx>, ldid: LocalDefId, out: &mut String, stats: &mut Stats) {
    let tcx = cx.tcx;
    let did = ldid.to_def_id();
    let dk = tcx.def_kind(did);
    let kind = match dk {
        DefKind::Fn => "fn",
        DefKind::AssocFn => "assoc_fn",
        DefKind::Closure => {
            if tcx.is_coroutine(did) {
                "coroutine"
            } else {
                "closure"
            }
        }
        DefKind::SyntheticCoroutineBody => "coroutine",
        DefKind::Const { .. } | DefKind::AssocConst { .. } => {
            if tcx.is_trivial_const(did) {
                return;
            }
            "const"
        }
        _ => return,
    };
    let def_span = tcx.def_span(did);
    let macros = cx.macros(def_span);
    // serde derive output is bulky and irrelevant to every rule
    if macros.iter().any(|m| m == "derive:Serialize" || m == "derive:Deserialize") {
        stats.skipped_serde += 1;
        return;
    }
    let steal = tcx.mir_drops_elaborated_and_const_checked(ldid);
    let guard;
    let mut stolen = steal.is_stolen();
    let mut pre = false;
    let stashed: Option<Body<'tcx>> = STASH.with(|s| {
        s.borrow().iter().find(|(d, _)| *d == ldid).map(|(_, b)| unsafe { std::mem::transmute::<Body<'static>, Body<'tcx>>(b.clone()) })
    });
    let body: &Body<'tcx> = if let Some(b) = stashed.as_ref() {
        pre = true;
        stolen = false;
        b
    } else if kind == "const" {
        stolen = false;
        tcx.mir_for_ctfe(did)
    } else if stolen {
        stats.optimized_fallback += 1;
        tcx.optimized_mir(did)
    } else {
        guard = steal.borrow();
        &guard
    };
    let env = TypingEnv::post_analysis(tcx, did);
    let (file, line) = cx.loc(def_span);
    let bcx = BodyCx { cx, body, env, file: file.clone() };

    let mut o = String::with_capacity(4096);
    let _ = write!(
        o,
        "{{\"k\":\"body\",\"id\":{},\"name\":{},\"kind\":\"{}\",\"file\":{},\"line\":{}",
        esc(&cx.id(did)),
        esc(&cx.path(did)),
        kind,
        esc(&file),
        line
    );
    if !macros.is_empty() {
        let _ = write!(o, ",\"mac\":{}", jlist(&macros.iter().map(|m| esc(m)).collect::<Vec<_>>()));
    }
    let root = tcx.typeck_root_def_id(did);
    if root != did {
        let _ = write!(o, ",\"root\":{}", esc(&cx.id(root)));
        let parent = tcx.parent(did);
        let _ = write!(o, ",\"parent\":{}", esc(&cx.id(parent)));
    }
    if matches!(dk, DefKind::Fn | DefKind::AssocFn) {
        let vis = tcx.visibility(did);
        let _ = write!(o, ",\"pub\":{}", vis.is_public());
        let _ = write!(o, ",\"async\":{}", tcx.asyncness(did).is_async());
    }
    if dk == DefKind::AssocFn {
        let parent = tcx.parent(did);
        if let DefKind::Impl { of_trait } = tcx.def_kind(parent) {
            let self_ty = tcx.type_of(parent).instantiate_identity().skip_norm_wip();
            let _ = write!(o, ",\"impl\":{},\"self_ty\":{}", esc(&cx.id(parent)), esc(&cx.ty(self_ty)));
            if let ty::Adt(ad, _) = self_ty.kind() {
                let _ = write!(o, ",\"self_adt\":{}", esc(&cx.path(ad.did())));
            }
            if of_trait {
                let tr = tcx.impl_trait_ref(parent).instantiate_identity().skip_norm_wip();
                let s = with_crate_prefix!(with_no_visible_paths!(with_no_trimmed_paths!(tr.print_only_trait_path().to_string())));
                let _ = write!(o, ",\"trait\":{},\"trait_def\":{}", esc(&cx.norm(s)), esc(&cx.path(tr.def_id)));
            }
        } else if tcx.def_kind(parent) == DefKind::Trait {
            let _ = write!(o, ",\"trait_default\":{}", esc(&cx.path(parent)));
        }
    }
    let _ = write!(o, ",\"argc\":{}", body.arg_count);
    if stolen {
        o.push_str(",\"lowered\":true");
    }
    if pre {
        o.push_str(",\"unelaborated\":true");
    }
    // locals
    let mut names: Vec<Option<String>> = vec![None; body.local_decls.len()];
    for vdi in body.var_debug_info.iter() {
        if let VarDebugInfoContents::Place(p) = &vdi.value {
            if p.projection.is_empty() {
                names[p.local.as_usize()] = Some(vdi.name.to_string());
            }
        }
    }
    let mut locals = Vec::with_capacity(body.local_decls.len());
    for (i, ld) in body.local_decls.iter().enumerate() {
        let mut l = format!("{{\"ty\":{}", esc(&cx.ty(ld.ty)));
        if let Some(n) = &names[i] {
            let _ = write!(l, ",\"n\":{}", esc(n));
        }
        l.push('}');
        locals.push(l);
    }
    let _ = write!(o, ",\"locals\":{}", jlist(&locals));
    // upvar debug names (closures): var_debug_info entries that project from _1
    if kind == "closure" || kind == "coroutine" {
        let mut ups = Vec::new();
        for vdi in body.var_debug_info.iter() {
            if let VarDebugInfoContents::Place(p) = &vdi.value {
                if !p.projection.is_empty() {
                    ups.push(format!("[{},{}]", esc(&vdi.name.to_string()), bcx.place(p)));
                }
            }
        }
        let _ = write!(o, ",\"upvars\":{}", jlist(&ups));
        if dk == DefKind::Closure {
            let mut caps = Vec::new();
            for cp in tcx.closure_captures(ldid) {
                let k = match cp.info.capture_kind {
                    ty::UpvarCapture::ByValue => "value".to_string(),
                    ty::UpvarCapture::ByUse => "use".to_string(),
                    ty::UpvarCapture::ByRef(bk) => format!("ref:{:?}", bk),
                };
                caps.push(format!(
                    "{{\"var\":{},\"place\":{},\"kind\":{},\"mut\":{}}}",
                    esc(&cp.var_ident.to_string()),
                    esc(&cp.to_string(tcx)),
                    esc(&k),
                    cp.mutability.is_mut()
                ));
            }
            let _ = write!(o, ",\"captures\":{}", jlist(&caps));
        }
    }
    // blocks
    let mut blocks = Vec::with_capacity(body.basic_blocks.len());
    for (_bb, data) in body.basic_blocks.iter_enumerated() {
        let mut ss = Vec::new();
        for s in data.statements.iter() {
            if let Some(j) = bcx.statement(s) {
                ss.push(j);
                stats.statements += 1;
            }
        }
        let t = bcx.terminator(data.terminator());
        blocks.push(format!(
            "{{\"s\":{},\"term\":{}{}}}",
            jlist(&ss),
            t,
            if data.is_cleanup { ",\"cleanup\":true" } else { "" }
        ));
    }
    let _ = write!(o, ",\"blocks\":{}}}\n", jlist(&blocks));
    out.push_str(&o);
    stats.bodies += 1;
    // promoted constants of this body (needed to see `&Role::Server`, `1200..=65527`, `&State::Inflight` ...)
    if kind != "const" {
        let proms = tcx.promoted_mir(did);
        for (pi, pb) in proms.iter_enumerated() {
            let pcx = BodyCx { cx, body: pb, env, file: file.clone() };
            let mut o = String::with_capacity(512);
            let _ = write!(
                o,
                "{{\"k\":\"body\",\"id\":{},\"name\":{},\"kind\":\"promoted\",\"file\":{},\"line\":{},\"root\":{},\"parent\":{},\"argc\":0",
                esc(&format!("{}::promoted[{}]", cx.id(did), pi.as_u32())),
                esc(&format!("{}::promoted[{}]", cx.path(did), pi.as_u32())),
                esc(&file),
                line,
                esc(&cx.id(tcx.typeck_root_def_id(did))),
                esc(&cx.id(did))
            );
            let mut locals = Vec::new();
            for ld in pb.local_decls.iter() {
                locals.push(format!("{{\"ty\":{}}}", esc(&cx.ty(ld.ty))));
            }
            let _ = write!(o, ",\"locals\":{}", jlist(&locals));
            let mut blocks = Vec::new();
            for (_bb, data) in pb.basic_blocks.iter_enumerated() {
                let mut ss = Vec::new();
                for st in data.statements.iter() {
                    if let Some(j) = pcx.statement(st) {
                        ss.push(j);
                    }
                }
                let t = pcx.terminator(data.terminator());
                blocks.push(format!("{{\"s\":{},\"term\":{}}}", jlist(&ss), t));
            }
            let _ = write!(o, ",\"blocks\":{}}}\n", jlist(&blocks));
            out.push_str(&o);
        }
    }
}

#[derive(Default)]
struct Stats {
    bodies: usize,
    statements: usize,
    skipped_serde: usize,
    optimized_fallback: usize,
    adts: usize,
    impls: usize,
}

fn dump_items<'tcx>(cx: &Cx<'tcx>, out: &mut String, stats: &mut Stats) {
    let tcx = cx.tcx;
    for ldid in tcx.hir_crate_items(()).definitions() {
        let did = ldid.to_def_id();
        match tcx.def_kind(did) {
            DefKind::Struct | DefKind::Enum | DefKind::Union => {
                let adt = tcx.adt_def(did);
                let (file, line) = cx.loc(tcx.def_span(did));
                let mut o = String::new();
                let _ = write!(
                    o,
                    "{{\"k\":\"adt\",\"id\":{},\"name\":{},\"kind\":\"{}\",\"file\":{},\"line\":{},\"pub\":{}",
                    esc(&cx.id(did)),
                    esc(&cx.path(did)),
                    if adt.is_enum() { "enum" } else if adt.is_union() { "union" } else { "struct" },
                    esc(&file),
                    line,
                    tcx.visibility(did).is_public()
                );
                if let Some(d) = tcx.adt_destructor(did) {
                    let _ = write!(o, ",\"drop\":{}", esc(&cx.id(d.did)));
                }
                let macros = cx.macros(tcx.def_span(did));
                if !macros.is_empty() {
                    let _ = write!(o, ",\"mac\":{}", jlist(&macros.iter().map(|m| esc(m)).collect::<Vec<_>>()));
                }
                let mut vs = Vec::new();
                for v in adt.variants().iter() {
                    let mut fs = Vec::new();
                    for f in v.fields.iter() {
                        let fty = tcx.type_of(f.did).instantiate_identity().skip_norm_wip();
                        fs.push(format!(
                            "{{\"n\":{},\"ty\":{},\"pub\":{}}}",
                            esc(f.name.as_str()),
                            esc(&cx.ty(fty)),
                            f.vis.is_public()
                        ));
                    }
                    let discr = match v.discr {
                        ty::VariantDiscr::Explicit(_) => "\"explicit\"".to_string(),
                        ty::VariantDiscr::Relative(n) => format!("{}", n),
                    };
                    vs.push(format!(
                        "{{\"n\":{},\"fields\":{},\"discr\":{}}}",
                        esc(v.name.as_str()),
                        jlist(&fs),
                        discr
                    ));
                }
                // explicit discriminant values for enums
                if adt.is_enum() {
                    let mut ds = Vec::new();
                    for (_i, d) in adt.discriminants(tcx) {
                        ds.push(esc(&format!("{}", d.val)));
                    }
                    let _ = write!(o, ",\"discrs\":{}", jlist(&ds));
                }
                let _ = write!(o, ",\"variants\":{}}}\n", jlist(&vs));
                out.push_str(&o);
                stats.adts += 1;
            }
            DefKind::Impl { of_trait } => {
                let self_ty = tcx.type_of(did).instantiate_identity().skip_norm_wip();
                let (file, line) = cx.loc(tcx.def_span(did));
                let mut o = String::new();
                let _ = write!(
                    o,
                    "{{\"k\":\"impl\",\"id\":{},\"self_ty\":{},\"file\":{},\"line\":{}",
                    esc(&cx.id(did)),
                    esc(&cx.ty(self_ty)),
                    esc(&file),
                    line
                );
                if let ty::Adt(ad, _) = self_ty.kind() {
                    let _ = write!(o, ",\"self_adt\":{}", esc(&cx.path(ad.did())));
                }
                if of_trait {
                    let tr = tcx.impl_trait_ref(did).instantiate_identity().skip_norm_wip();
                    let s = with_crate_prefix!(with_no_visible_paths!(with_no_trimmed_paths!(tr.print_only_trait_path().to_string())));
                    let _ = write!(o, ",\"trait\":{},\"trait_def\":{}", esc(&cx.norm(s)), esc(&cx.path(tr.def_id)));
                }
                let macros = cx.macros(tcx.def_span(did));
                if !macros.is_empty() {
                    let _ = write!(o, ",\"mac\":{}", jlist(&macros.iter().map(|m| esc(m)).collect::<Vec<_>>()));
                }
                let mut items = Vec::new();
                for &it in tcx.associated_item_def_ids(did) {
                    let ai = tcx.associated_item(it);
                    let mut e = format!("{{\"n\":{},\"id\":{}", esc(ai.opt_name().map(|n| n.to_string()).unwrap_or_else(|| "<rpitit>".to_string()).as_str()), esc(&cx.id(it)));
                    if let Some(t) = ai.trait_item_def_id() {
                        let _ = write!(e, ",\"trait_item\":{}", esc(&cx.id(t)));
                    }
                    let _ = write!(e, ",\"fn\":{}}}", matches!(ai.kind, ty::AssocKind::Fn { .. }));
                    items.push(e);
                }
                let _ = write!(o, ",\"items\":{}}}\n", jlist(&items));
                out.push_str(&o);
                stats.impls += 1;
            }
            DefKind::Trait => {
                let mut o = String::new();
                let _ = write!(o, "{{\"k\":\"trait\",\"id\":{},\"name\":{}", esc(&cx.id(did)), esc(&cx.path(did)));
                let mut items = Vec::new();
                for &it in tcx.associated_item_def_ids(did) {
                    let ai = tcx.associated_item(it);
                    items.push(format!(
                        "{{\"n\":{},\"id\":{},\"fn\":{},\"default\":{}}}",
                        esc(ai.opt_name().map(|n| n.to_string()).unwrap_or_else(|| "<rpitit>".to_string()).as_str()),
                        esc(&cx.id(it)),
                        matches!(ai.kind, ty::AssocKind::Fn { .. }),
                        ai.defaultness(tcx).has_value()
                    ));
                }
                let _ = write!(o, ",\"items\":{}}}\n", jlist(&items));
                out.push_str(&o);
            }
            DefKind::Const { .. } | DefKind::AssocConst { .. } => {
                // named constants with scalar values
                let ty = tcx.type_of(did).instantiate_identity().skip_norm_wip();
                if ty.is_integral() || ty.is_bool() {
                    if tcx.generics_of(did).requires_monomorphization(tcx) {
                        continue;
                    }
                    if let Ok(val) = tcx.const_eval_poly(did) {
                        if let Some(si) = val.try_to_scalar_int() {
                            let v = if ty.is_signed() {
                                format!("{}", si.to_int(si.size()))
                            } else {
                                format!("{}", si.to_uint(si.size()))
                            };
                            let _ = write!(
                                out,
                                "{{\"k\":\"const\",\"name\":{},\"ty\":{},\"v\":{}}}\n",
                                esc(&cx.path(did)),
                                esc(&cx.ty(ty)),
                                esc(&v)
                            );
                        }
                    }
                }
            }
            _ => {}
        }
    }
}

struct Mirx;

impl Callbacks for Mirx {
    fn config(&mut self, config: &mut rustc_interface::interface::Config) {
        config.override_queries = Some(|_sess, providers| {
            let f: PromotedFn = providers.queries.mir_promoted;
            DEFAULT_MIR_PROMOTED.with(|d| *d.borrow_mut() = Some(f as usize));
            providers.queries.mir_promoted = my_mir_promoted;
        });
    }

    fn after_analysis<'tcx>(&mut self, _c: &rustc_interface::interface::Compiler, tcx: TyCtxt<'tcx>) -> Compilation {
        let out_dir = match std::env::var("MIRX_OUT") {
            Ok(d) => d,
            Err(_) => return Compilation::Continue,
        };
        let krate = tcx.crate_name(rustc_hir::def_id::LOCAL_CRATE).to_string();
        // only library/bin targets of the workspace; build scripts are skipped
        if krate.starts_with("build_script") {
            return Compilation::Continue;
        }
        let cx = Cx { tcx, krate: krate.clone() };
        let mut out = String::with_capacity(1 << 22);
        let mut stats = Stats::default();
        dump_items(&cx, &mut out, &mut stats);
        let owners: Vec<LocalDefId> = tcx.hir_body_owners().collect();
        for ldid in owners {
            dump_body(&cx, ldid, &mut out, &mut stats);
        }
        let ctype = format!("{:?}", tcx.crate_types());
        let _ = write!(
            out,
            "{{\"k\":\"crate\",\"name\":{},\"types\":{},\"bodies\":{},\"statements\":{},\"skipped_serde\":{},\"optimized_fallback\":{},\"adts\":{},\"impls\":{}}}\n",
            esc(&krate),
            esc(&ctype),
            stats.bodies,
            stats.statements,
            stats.skipped_serde,
            stats.optimized_fallback,
            stats.adts,
            stats.impls
        );
        let suffix = if ctype.contains("Executable") { "-bin" } else { "" };
        let sid = format!("{:x}", tcx.stable_crate_id(rustc_hir::def_id::LOCAL_CRATE).as_u64());
        let path = format!("{}/{}{}-{}.jsonl", out_dir, krate, suffix, sid);
        if let Err(e) = std::fs::write(&path, out) {
            eprintln!("mirx: cannot write {}: {}", path, e);
            std::process::exit(101);
        }
        Compilation::Continue
    }
}

fn main() {
    let mut args: Vec<String> = std::env::args().collect();
    // RUSTC_WORKSPACE_WRAPPER: argv[1] is the path of the real rustc
    if args.len() > 1 && (args[1].ends_with("rustc") || args[1].contains("/rustc")) {
        args.remove(1);
    }
    let mut cb = Mirx;
    rustc_driver::run_compiler(&args, &mut cb);
}
